package main

import (
	"context"
	"fmt"
	"io"
	"runtime/debug"
	"strings"
	"time"

	"github.com/gogo/protobuf/proto"
	adminapi "github.com/onosproject/onos-api/go/onos/config/admin"
	configapi "github.com/onosproject/onos-api/go/onos/config/v2"
	"github.com/openconfig/gnmi/proto/gnmi"
	"github.com/openconfig/gnmi/proto/gnmi_ext"
	"google.golang.org/grpc"
	"google.golang.org/grpc/metadata"
	"verif/harness/world"
)

// Shape is one request shape enumerated by TLC from spec/nb/Shapes.
type Shape struct {
	RPC       string `json:"rpc"`
	Prefix    string `json:"prefix"`
	Target    string `json:"target"`
	Path      string `json:"path"`
	NPaths    int    `json:"npaths"`
	Enc       string `json:"enc"`
	Type      string `json:"type"`
	Ext       string `json:"ext"`
	Populated bool   `json:"populated"`
	Op        string `json:"op"`
	Val       string `json:"val"`
	NilUpdate bool   `json:"nilupdate"`
	First     string `json:"first"`
	Second    string `json:"second"`
	ReqNil    bool   `json:"reqnil"`
	SelPath   string `json:"selpath"`
	Ctx       string `json:"ctx"`
	Index     int64  `json:"index"`
	ID        string `json:"id"`
}

// where names the first frames of the panicking stack that lie in onos-config
func where() string {
	var out []string
	for _, l := range strings.Split(string(debug.Stack()), "\n") {
		if strings.Contains(l, "/repo/pkg/") {
			l = strings.TrimSpace(l)
			if i := strings.Index(l, " +0x"); i > 0 {
				l = l[:i]
			}
			out = append(out, strings.TrimPrefix(l, "/repo/"))
			if len(out) == 3 {
				break
			}
		}
	}
	return strings.Join(out, " < ")
}

func el(name string, kv ...string) *gnmi.PathElem {
	e := &gnmi.PathElem{Name: name}
	if len(kv) > 0 {
		e.Key = map[string]string{}
		for i := 0; i+1 < len(kv); i += 2 {
			e.Key[kv[i]] = kv[i+1]
		}
	}
	return e
}

// pathOf instantiates a path class.
func pathOf(class, target string) *gnmi.Path {
	p := &gnmi.Path{Target: target}
	switch class {
	case "nil":
		return nil
	case "empty":
	case "paren-open":
		p.Elem = []*gnmi.PathElem{el("a"), el("(b")}
	case "paren-close":
		p.Elem = []*gnmi.PathElem{el("a"), el("b)")}
	case "bracket-open-name":
		p.Elem = []*gnmi.PathElem{el("a"), el("[b")}
	case "bracket-close-name":
		p.Elem = []*gnmi.PathElem{el("a"), el("b]")}
	case "equals-name":
		p.Elem = []*gnmi.PathElem{el("a"), el("=b")}
	case "backslash":
		p.Elem = []*gnmi.PathElem{el("a"), el("b\\")}
	case "star":
		p.Elem = []*gnmi.PathElem{el("a"), el("*")}
	case "ellipsis":
		p.Elem = []*gnmi.PathElem{el("...")}
	case "a-ellipsis":
		p.Elem = []*gnmi.PathElem{el("a"), el("...")}
	case "colon-prefix":
		p.Elem = []*gnmi.PathElem{el("mod:a"), el(":b")}
	case "double-slash":
		p.Elem = []*gnmi.PathElem{el("a/"), el("/b")}
	case "elem-empty-name":
		p.Elem = []*gnmi.PathElem{el("a"), el("")}
	case "elem-nil":
		p.Elem = []*gnmi.PathElem{el("a"), {}} // a repeated field never decodes to a nil member: the closest shape is an empty message
	case "key-empty-name":
		p.Elem = []*gnmi.PathElem{el("l", "", "1"), el("x")}
	case "key-empty-value":
		p.Elem = []*gnmi.PathElem{el("l", "k", ""), el("x")}
	case "key-bracket":
		p.Elem = []*gnmi.PathElem{el("l", "k", "a]b[c"), el("x")}
	case "key-slash":
		p.Elem = []*gnmi.PathElem{el("l", "k", "a/b"), el("x")}
	case "key-equals":
		p.Elem = []*gnmi.PathElem{el("l", "k", "a=b"), el("x")}
	case "plus":
		p.Elem = []*gnmi.PathElem{el("a+"), el("+b")}
	case "question":
		p.Elem = []*gnmi.PathElem{el("a?"), el("b")}
	case "pipe":
		p.Elem = []*gnmi.PathElem{el("a|b"), el("c")}
	case "caret-dollar":
		p.Elem = []*gnmi.PathElem{el("^a$"), el("b")}
	case "braces":
		p.Elem = []*gnmi.PathElem{el("a{2"), el("b}")}
	case "long":
		p.Elem = []*gnmi.PathElem{el(strings.Repeat("a", 5000)), el("b")}
	case "unicode":
		p.Elem = []*gnmi.PathElem{el("ä\u0000"), el("\xff\xfe")}
	case "m-partial-key":
		p.Elem = []*gnmi.PathElem{el("m", "j", "2"), el("x")}
	default:
		q := relPath(class, target)
		return q
	}
	return p
}

func prefixOf(class string) *gnmi.Path {
	switch class {
	case "nil":
		return nil
	case "empty":
		return &gnmi.Path{}
	case "t1":
		return &gnmi.Path{Target: "t1"}
	case "t1-elems":
		return &gnmi.Path{Target: "t1", Elem: []*gnmi.PathElem{el("a")}}
	case "elems-only":
		return &gnmi.Path{Elem: []*gnmi.PathElem{el("a")}}
	case "star":
		return &gnmi.Path{Target: "*"}
	case "paren":
		return &gnmi.Path{Target: "t1", Elem: []*gnmi.PathElem{el("(a")}}
	}
	return nil
}

func valOf(class string) *gnmi.TypedValue {
	sv := func(s string) *gnmi.TypedValue {
		return &gnmi.TypedValue{Value: &gnmi.TypedValue_StringVal{StringVal: s}}
	}
	switch class {
	case "nil":
		return nil
	case "empty":
		return &gnmi.TypedValue{}
	case "string":
		return sv("v1")
	case "int":
		return &gnmi.TypedValue{Value: &gnmi.TypedValue_IntVal{IntVal: -5}}
	case "uint":
		return &gnmi.TypedValue{Value: &gnmi.TypedValue_UintVal{UintVal: 5}}
	case "huge-int":
		return &gnmi.TypedValue{Value: &gnmi.TypedValue_UintVal{UintVal: ^uint64(0)}}
	case "bool":
		return &gnmi.TypedValue{Value: &gnmi.TypedValue_BoolVal{BoolVal: true}}
	case "bytes":
		return &gnmi.TypedValue{Value: &gnmi.TypedValue_BytesVal{BytesVal: []byte{0, 1, 2}}}
	case "float":
		return &gnmi.TypedValue{Value: &gnmi.TypedValue_FloatVal{FloatVal: 1.5}}
	case "decimal":
		return &gnmi.TypedValue{Value: &gnmi.TypedValue_DecimalVal{DecimalVal: &gnmi.Decimal64{Digits: 15, Precision: 1}}}
	case "decimal-p64":
		// a precision beyond what fits the arithmetic of the renderers
		return &gnmi.TypedValue{Value: &gnmi.TypedValue_DecimalVal{DecimalVal: &gnmi.Decimal64{Digits: 1, Precision: 64}}}
	case "decimal-neg":
		return &gnmi.TypedValue{Value: &gnmi.TypedValue_DecimalVal{DecimalVal: &gnmi.Decimal64{Digits: -5, Precision: 255}}}
	case "json-valid":
		return &gnmi.TypedValue{Value: &gnmi.TypedValue_JsonVal{JsonVal: []byte(`{"a":{"b":"v9"}}`)}}
	case "json-invalid":
		return &gnmi.TypedValue{Value: &gnmi.TypedValue_JsonVal{JsonVal: []byte(`{"a":`)}}
	case "json-array":
		return &gnmi.TypedValue{Value: &gnmi.TypedValue_JsonVal{JsonVal: []byte(`[1,2]`)}}
	case "jsonietf":
		return &gnmi.TypedValue{Value: &gnmi.TypedValue_JsonIetfVal{JsonIetfVal: []byte(`{"a":{"b":"v9"}}`)}}
	case "leaflist-str":
		return &gnmi.TypedValue{Value: &gnmi.TypedValue_LeaflistVal{LeaflistVal: &gnmi.ScalarArray{Element: []*gnmi.TypedValue{sv("a"), sv("b")}}}}
	case "leaflist-mixed":
		return &gnmi.TypedValue{Value: &gnmi.TypedValue_LeaflistVal{LeaflistVal: &gnmi.ScalarArray{Element: []*gnmi.TypedValue{sv("a"), {Value: &gnmi.TypedValue_IntVal{IntVal: 1}}}}}}
	case "leaflist-nilelem":
		return &gnmi.TypedValue{Value: &gnmi.TypedValue_LeaflistVal{LeaflistVal: &gnmi.ScalarArray{Element: []*gnmi.TypedValue{{}, sv("b")}}}}
	case "leaflist-empty":
		return &gnmi.TypedValue{Value: &gnmi.TypedValue_LeaflistVal{LeaflistVal: &gnmi.ScalarArray{}}}
	case "ascii":
		return &gnmi.TypedValue{Value: &gnmi.TypedValue_AsciiVal{AsciiVal: "x"}}
	case "any":
		return &gnmi.TypedValue{Value: &gnmi.TypedValue_AnyVal{}}
	case "proto-bytes":
		return &gnmi.TypedValue{Value: &gnmi.TypedValue_ProtoBytes{ProtoBytes: []byte{1, 2}}}
	}
	return sv("v1")
}

func extsOf(class string) []*gnmi_ext.Extension {
	reg := func(id gnmi_ext.ExtensionID, msg []byte) *gnmi_ext.Extension {
		return &gnmi_ext.Extension{Ext: &gnmi_ext.Extension_RegisteredExt{RegisteredExt: &gnmi_ext.RegisteredExtension{Id: id, Msg: msg}}}
	}
	switch class {
	case "garbage-111":
		return []*gnmi_ext.Extension{reg(configapi.TransactionStrategyExtensionID, []byte{0xff, 0xff, 0xff, 0x01})}
	case "garbage-100":
		return []*gnmi_ext.Extension{reg(configapi.TargetVersionOverridesID, []byte{0xff, 0xff, 0xff, 0x01})}
	case "garbage-110":
		return []*gnmi_ext.Extension{reg(configapi.TransactionInfoExtensionID, []byte{0xff, 0xff})}
	case "nil-ext":
		return []*gnmi_ext.Extension{{}, {}}
	case "nil-registered":
		// a present but empty message of a oneof decodes to an empty message, never to nil
		return []*gnmi_ext.Extension{{Ext: &gnmi_ext.Extension_RegisteredExt{RegisteredExt: &gnmi_ext.RegisteredExtension{}}}}
	case "sync":
		b, _ := proto.Marshal(&configapi.TransactionStrategy{Synchronicity: configapi.TransactionStrategy_SYNCHRONOUS})
		return []*gnmi_ext.Extension{reg(configapi.TransactionStrategyExtensionID, b)}
	case "overrides-unknown":
		b, _ := proto.Marshal(&configapi.TargetVersionOverrides{Overrides: map[string]*configapi.TargetTypeVersion{"t1": {TargetType: "nope", TargetVersion: "9"}, "tX": nil}})
		return []*gnmi_ext.Extension{reg(configapi.TargetVersionOverridesID, b)}
	case "overrides-t1":
		b, _ := proto.Marshal(&configapi.TargetVersionOverrides{Overrides: map[string]*configapi.TargetTypeVersion{"t1": {TargetType: world.ModelType, TargetVersion: world.ModelVersion}}})
		return []*gnmi_ext.Extension{reg(configapi.TargetVersionOverridesID, b)}
	case "overrides-empty":
		// the extension is present, its payload decodes to no entries
		return []*gnmi_ext.Extension{reg(configapi.TargetVersionOverridesID, []byte{})}
	case "overrides-unknown-fields":
		return []*gnmi_ext.Extension{reg(configapi.TargetVersionOverridesID, []byte{0x10, 0x01})}
	case "overrides-nil-value":
		// a map entry with a key and no value: field 1 (entry) { field 1 (key) "t1" }
		return []*gnmi_ext.Extension{reg(configapi.TargetVersionOverridesID, []byte{0x0a, 0x04, 0x0a, 0x02, 't', '1'})}
	case "master-arb":
		return []*gnmi_ext.Extension{{Ext: &gnmi_ext.Extension_MasterArbitration{MasterArbitration: &gnmi_ext.MasterArbitration{}}}}
	}
	return nil
}

func encOf(s string) gnmi.Encoding {
	switch s {
	case "JSON":
		return gnmi.Encoding_JSON
	case "JSON_IETF":
		return gnmi.Encoding_JSON_IETF
	case "ASCII":
		return gnmi.Encoding_ASCII
	case "BYTES":
		return gnmi.Encoding_BYTES
	case "99":
		return gnmi.Encoding(99)
	}
	return gnmi.Encoding_PROTO
}

type listStream struct {
	grpc.ServerStream
	ctx context.Context
}

func (l *listStream) Context() context.Context     { return l.ctx }
func (l *listStream) SendMsg(m interface{}) error  { return nil }
func (l *listStream) RecvMsg(m interface{}) error  { return io.EOF }
func (l *listStream) SetHeader(metadata.MD) error  { return nil }
func (l *listStream) SendHeader(metadata.MD) error { return nil }
func (l *listStream) SetTrailer(metadata.MD)       {}
func (l *listStream) Send(interface{}) error       { return nil }

type modelsStream struct{ listStream }

func (m *modelsStream) Send(*adminapi.ModelPlugin) error { return nil }

type txListStream struct{ listStream }

func (m *txListStream) Send(*adminapi.ListTransactionsResponse) error { return nil }

type cfgListStream struct{ listStream }

func (m *cfgListStream) Send(*adminapi.ListConfigurationsResponse) error { return nil }

// runShape calls the real handler for one shape under recover(); o.Panic carries a recovered panic.
func runShape(w *world.World, n int, sh Shape, o *Out) error {
	ctx, cancel := context.WithTimeout(context.Background(), 300*time.Millisecond)
	defer cancel()
	var err error
	call := func(f func() error) {
		defer func() {
			if r := recover(); r != nil {
				o.Panic = fmt.Sprintf("%s: %v @ %s", sh.RPC, r, where())
			}
		}()
		err = f()
	}
	switch sh.RPC {
	case "get":
		req := &gnmi.GetRequest{Prefix: prefixOf(sh.Prefix), Encoding: encOf(sh.Enc), Extension: extsOf(sh.Ext)}
		switch sh.Type {
		case "CONFIG":
			req.Type = gnmi.GetRequest_CONFIG
		case "STATE":
			req.Type = gnmi.GetRequest_STATE
		case "OPERATIONAL":
			req.Type = gnmi.GetRequest_OPERATIONAL
		}
		for i := 0; i < sh.NPaths; i++ {
			p := pathOf(sh.Path, sh.Target)
			if p == nil {
				p = &gnmi.Path{} // members of a repeated field are never nil on the wire
			}
			req.Path = append(req.Path, p)
		}
		call(func() error { _, e := w.NBServer().Get(ctx, req); return e })
	case "set":
		req := &gnmi.SetRequest{Prefix: prefixOf(sh.Prefix), Extension: extsOf(sh.Ext)}
		switch sh.Op {
		case "update":
			req.Update = []*gnmi.Update{{Path: pathOf(sh.Path, sh.Target), Val: valOf(sh.Val)}}
		case "replace":
			req.Replace = []*gnmi.Update{{Path: pathOf(sh.Path, sh.Target), Val: valOf(sh.Val)}}
		case "delete":
			p := pathOf(sh.Path, sh.Target)
			if p == nil {
				p = &gnmi.Path{}
			}
			req.Delete = []*gnmi.Path{p}
		}
		if sh.NilUpdate {
			req.Update = append(req.Update, &gnmi.Update{})
			req.Delete = append(req.Delete, &gnmi.Path{})
		}
		h, herr := w.StartSetRaw(fmt.Sprintf("s%d", n), req, nil)
		if herr != nil {
			return herr
		}
		if serr := w.Settle(); serr != nil {
			return serr
		}
		_, _, code, msg, _ := h.Outcome()
		if code == -1 {
			o.Panic = "set: " + msg
		}
		// the controllers run in the server process: whatever the request logged is reconciled to quiescence
		if _, derr := w.Drain(400); derr != nil {
			return derr
		}
		if ps := w.TakePanics(); len(ps) > 0 {
			o.Panic = "reconcile after set: " + ps[0]
		}
		w.AbandonHandlers()
	case "sub":
		fs := &fakeStream{ctx: ctx}
		mk := func(kind string) *gnmi.SubscribeRequest {
			switch kind {
			case "nil-msg":
				return &gnmi.SubscribeRequest{Extension: extsOf("nil-ext")}
			case "empty-msg":
				return &gnmi.SubscribeRequest{}
			case "sub-empty-list":
				return &gnmi.SubscribeRequest{Request: &gnmi.SubscribeRequest_Subscribe{Subscribe: &gnmi.SubscriptionList{}}}
			case "sub-nil-list":
				return &gnmi.SubscribeRequest{Request: &gnmi.SubscribeRequest_Subscribe{Subscribe: &gnmi.SubscriptionList{Subscription: []*gnmi.Subscription{{}}}}}
			case "poll":
				return &gnmi.SubscribeRequest{Request: &gnmi.SubscribeRequest_Poll{Poll: &gnmi.Poll{}}}
			case "aliases":
				return &gnmi.SubscribeRequest{Request: &gnmi.SubscribeRequest_Poll{Poll: &gnmi.Poll{}}, Extension: extsOf("nil-ext")}
			default:
				return &gnmi.SubscribeRequest{Request: &gnmi.SubscribeRequest_Subscribe{Subscribe: &gnmi.SubscriptionList{Prefix: prefixOf(sh.Prefix),
					Subscription: []*gnmi.Subscription{{Path: pathOf(sh.Path, sh.Target)}, {}}}}}
			}
		}
		fs.msgs = append(fs.msgs, mk(sh.First))
		if sh.Second != "none" {
			fs.msgs = append(fs.msgs, mk(sh.Second))
		}
		conns := &fakeConns{targets: map[string]*fakeTarget{"t1": {name: "t1"}, "t2": {name: "t2"}}}
		srv := w.NBServerWithConns(conns)
		call(func() error { return srv.Subscribe(fs) })
	case "caps":
		call(func() error { _, e := w.NBServer().Capabilities(ctx, &gnmi.CapabilityRequest{}); return e })
	case "models":
		call(func() error {
			return w.AdminServer().ListRegisteredModels(&adminapi.ListModelsRequest{ModelName: sh.ID, Verbose: true}, &modelsStream{listStream{ctx: ctx}})
		})
	case "gettx":
		call(func() error {
			_, e := w.AdminServer().GetTransaction(ctx, &adminapi.GetTransactionRequest{ID: configapi.TransactionID(sh.ID)})
			return e
		})
	case "getcfg":
		call(func() error {
			_, e := w.AdminServer().GetConfiguration(ctx, &adminapi.GetConfigurationRequest{ConfigurationID: configapi.ConfigurationID(sh.ID)})
			return e
		})
	case "listtx":
		call(func() error {
			return w.AdminServer().ListTransactions(&adminapi.ListTransactionsRequest{}, &txListStream{listStream{ctx: ctx}})
		})
	case "listcfg":
		call(func() error {
			return w.AdminServer().ListConfigurations(&adminapi.ListConfigurationsRequest{}, &cfgListStream{listStream{ctx: ctx}})
		})
	case "rollback":
		call(func() error {
			_, e := w.AdminServer().RollbackTransaction(ctx, &adminapi.RollbackRequest{Index: configapi.Index(sh.Index)})
			return e
		})
	case "leafsel":
		var req *adminapi.LeafSelectionQueryRequest
		if !sh.ReqNil {
			req = &adminapi.LeafSelectionQueryRequest{Target: sh.Target, Type: sh.Type, Version: world.ModelVersion}
			if p := pathOf(sh.SelPath, ""); p != nil {
				req.SelectionPath = world.PathToStr(p)
			}
			switch sh.Ctx {
			case "empty":
				req.ChangeContext = &gnmi.SetRequest{}
			case "update":
				req.ChangeContext = &gnmi.SetRequest{Update: []*gnmi.Update{{Path: pathOf(sh.Path, "t1"), Val: valOf(sh.Val)}}}
			case "delete":
				p := pathOf(sh.Path, "t1")
				if p == nil {
					p = &gnmi.Path{}
				}
				req.ChangeContext = &gnmi.SetRequest{Delete: []*gnmi.Path{p}}
			case "json":
				req.ChangeContext = &gnmi.SetRequest{Prefix: prefixOf("t1-elems"), Replace: []*gnmi.Update{{Path: pathOf(sh.Path, "t1"), Val: valOf("json-valid")}}}
			}
		}
		call(func() error { _, e := w.AdminServer().LeafSelectionQuery(ctx, req); return e })
	default:
		return fmt.Errorf("unknown rpc %q", sh.RPC)
	}
	o.Answered = true
	o.OK = err == nil && o.Panic == ""
	return nil
}
