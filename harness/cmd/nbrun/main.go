// nbrun: run northbound request cases (enumerated by TLC from spec/nb/NbCases) on the REAL handlers and
// record what they answered.  Cases run sequentially in one process (ADMINGROUPS / OIDC_SERVER_URL are
// process environment); the checker runs several processes.
package main

import (
	"context"
	"encoding/json"
	"flag"
	"fmt"
	"io"
	"os"
	"sort"
	"strings"
	"sync"

	"github.com/gogo/protobuf/proto"
	configapi "github.com/onosproject/onos-api/go/onos/config/v2"
	topoapi "github.com/onosproject/onos-api/go/onos/topo"
	sb "github.com/onosproject/onos-config/pkg/southbound/gnmi"
	"github.com/onosproject/onos-lib-go/pkg/errors"
	baseClient "github.com/openconfig/gnmi/client"
	"github.com/openconfig/gnmi/proto/gnmi"
	"github.com/openconfig/gnmi/proto/gnmi_ext"
	"google.golang.org/grpc/metadata"
	"google.golang.org/grpc/status"
	protov2 "google.golang.org/protobuf/proto"
	"verif/harness/world"
)

type Op struct {
	Op     string `json:"op"`
	Target string `json:"target"`
	Rel    string `json:"rel"`
	Val    string `json:"val"`
}

type Msg struct {
	K       string   `json:"k"`
	Mode    string   `json:"mode"`
	Entries []string `json:"entries"`
}

type Case struct {
	Kind string `json:"kind"`
	// admission
	Limit   int    `json:"limit"`
	Ext     string `json:"ext"`
	PTarget string `json:"ptarget"`
	PElems  string `json:"pelems"`
	Ops     []Op   `json:"ops"`
	// rbac
	Admin  []string `json:"admin"`
	Ident  bool     `json:"ident"`
	Groups []string `json:"groups"`
	OIDC   bool     `json:"oidc"`
	// subscribe
	Prefix string `json:"prefix"`
	Msgs   []Msg  `json:"msgs"`
	// shape (C12)
	Shape Shape `json:"shape"`
}

type Sent struct {
	Mode    string `json:"mode"`
	Entries []int  `json:"entries"` // positions (1-based) of the forwarded entries in the original list
	Exact   bool   `json:"exact"`   // every forwarded entry is the original message, list options and prefix target as documented
}

type Out struct {
	Case      json.RawMessage              `json:"case"`
	Kind      string                       `json:"kind"`
	Panic     string                       `json:"panic"`
	Answered  bool                         `json:"answered"`
	OK        bool                         `json:"ok"`
	Code      int                          `json:"code"`
	Created   int                          `json:"created"` // transactions.Create calls
	Change    map[string]map[string]string `json:"change"`
	Targets   []string                     `json:"targets"`
	RefusedAt int                          `json:"refusedat"`
	SentTo    map[string]Sent              `json:"sent"`
	Polls     map[string]int               `json:"polls"`
	Relayed   []string                     `json:"relayed"`
}

func relPath(rel string, target string) *gnmi.Path {
	p := &gnmi.Path{Target: target}
	for _, e := range world.SplitElems(rel) {
		name := e
		keys := map[string]string{}
		if i := strings.Index(e, "["); i >= 0 {
			name = e[:i]
			rest := e[i:]
			for len(rest) > 0 && rest[0] == '[' {
				j := strings.Index(rest, "]")
				kv := rest[1:j]
				eq := strings.Index(kv, "=")
				keys[kv[:eq]] = kv[eq+1:]
				rest = rest[j+1:]
			}
		}
		pe := &gnmi.PathElem{Name: name}
		if len(keys) > 0 {
			pe.Key = keys
		}
		p.Elem = append(p.Elem, pe)
	}
	return p
}

func effectsCreate(w *world.World) int {
	n := 0
	if w.Trace == nil || len(w.Trace.Lines) == 0 {
		return 0
	}
	for _, e := range w.Trace.Lines[len(w.Trace.Lines)-1].Effects {
		if e.Op == "tx.Create" {
			n++
		}
	}
	return n
}

func runSet(w *world.World, n int, req *gnmi.SetRequest, md map[string]string, o *Out) error {
	name := fmt.Sprintf("n%d", n)
	h, err := w.StartSetRaw(name, req, md)
	if err != nil {
		return err
	}
	w.Trace = &world.Trace{}
	if err := w.Step(world.Step{K: "observe"}); err != nil { // settles and records the effects of the request
		return err
	}
	done, ok, code, msg, idx := h.Outcome()
	o.Created = effectsCreate(w)
	if code == -1 {
		o.Panic = msg
	}
	o.Answered, o.OK, o.Code = done, ok, code
	if idx > 0 {
		// accepted: the handler now waits for the controllers (which do not run here)
		o.OK, o.Answered = true, true
		ch, err := w.TxChange(idx)
		if err != nil {
			return err
		}
		o.Change = ch
	}
	w.AbandonHandlers()
	return nil
}

// ---- subscribe fakes
type fakeStream struct {
	gnmi.GNMI_SubscribeServer
	ctx  context.Context
	msgs []*gnmi.SubscribeRequest
	n    int
	mu   sync.Mutex
	sent []*gnmi.SubscribeResponse
}

func (f *fakeStream) Context() context.Context { return f.ctx }
func (f *fakeStream) Recv() (*gnmi.SubscribeRequest, error) {
	if f.n >= len(f.msgs) {
		return nil, io.EOF
	}
	f.n++
	return f.msgs[f.n-1], nil
}
func (f *fakeStream) Send(r *gnmi.SubscribeResponse) error {
	f.mu.Lock()
	f.sent = append(f.sent, r)
	f.mu.Unlock()
	return nil
}
func (f *fakeStream) SetHeader(metadata.MD) error  { return nil }
func (f *fakeStream) SendHeader(metadata.MD) error { return nil }
func (f *fakeStream) SetTrailer(metadata.MD)       {}
func (f *fakeStream) SendMsg(m interface{}) error  { return nil }
func (f *fakeStream) RecvMsg(m interface{}) error  { return nil }

type fakeTarget struct {
	sb.Client
	name  string
	subs  []*gnmi.SubscribeRequest
	polls int
}

func (t *fakeTarget) Subscribe(ctx context.Context, q baseClient.Query) error {
	t.subs = append(t.subs, q.SubReq)
	if q.ProtoHandler != nil {
		// the target answers once; the answer must reach the subscriber as it is
		_ = q.ProtoHandler(&gnmi.SubscribeResponse{Response: &gnmi.SubscribeResponse_Update{Update: &gnmi.Notification{
			Prefix: &gnmi.Path{Target: t.name}, Timestamp: 42,
			Update: []*gnmi.Update{{Path: &gnmi.Path{Elem: []*gnmi.PathElem{{Name: "from-" + t.name}}},
				Val: &gnmi.TypedValue{Value: &gnmi.TypedValue_StringVal{StringVal: "x"}}}}}}})
	}
	return nil
}
func (t *fakeTarget) Poll() error { t.polls++; return nil }

type fakeConns struct {
	sb.ConnManager
	targets map[string]*fakeTarget
}

func (c *fakeConns) GetByTarget(ctx context.Context, id topoapi.ID) (sb.Client, error) {
	t, ok := c.targets[string(id)]
	if !ok {
		return nil, errors.NewNotFound("no target %s", id)
	}
	return t, nil
}
func (c *fakeConns) Get(ctx context.Context, id sb.ConnID) (sb.Conn, bool) { return nil, false }

func modeOf(s string) gnmi.SubscriptionList_Mode {
	switch s {
	case "ONCE":
		return gnmi.SubscriptionList_ONCE
	case "POLL":
		return gnmi.SubscriptionList_POLL
	}
	return gnmi.SubscriptionList_STREAM
}

func runSubscribe(w *world.World, c Case, o *Out) {
	conns := &fakeConns{targets: map[string]*fakeTarget{"t1": {name: "t1"}, "t2": {name: "t2"}}}
	srv := w.NBServerWithConns(conns)
	fs := &fakeStream{ctx: context.Background()}
	var orig [][]*gnmi.Subscription
	for _, m := range c.Msgs {
		switch m.K {
		case "sub":
			sl := &gnmi.SubscriptionList{Mode: modeOf(m.Mode), UpdatesOnly: true, Encoding: gnmi.Encoding_PROTO, Qos: &gnmi.QOSMarking{Marking: 7}}
			switch c.Prefix {
			case "nil":
			case "none":
				sl.Prefix = &gnmi.Path{Origin: "o"}
			default:
				sl.Prefix = &gnmi.Path{Origin: "o", Target: c.Prefix}
			}
			for i, t := range m.Entries {
				sl.Subscription = append(sl.Subscription, &gnmi.Subscription{
					Path: &gnmi.Path{Target: t, Elem: []*gnmi.PathElem{{Name: fmt.Sprintf("e%d", i+1)}}}, Mode: gnmi.SubscriptionMode_SAMPLE, SampleInterval: uint64(1000 + i)})
			}
			orig = append(orig, sl.Subscription)
			fs.msgs = append(fs.msgs, &gnmi.SubscribeRequest{Request: &gnmi.SubscribeRequest_Subscribe{Subscribe: sl}})
		case "poll":
			fs.msgs = append(fs.msgs, &gnmi.SubscribeRequest{Request: &gnmi.SubscribeRequest_Poll{Poll: &gnmi.Poll{}}})
		default:
			fs.msgs = append(fs.msgs, &gnmi.SubscribeRequest{})
		}
	}
	var err error
	func() {
		defer func() {
			if r := recover(); r != nil {
				o.Panic = fmt.Sprint(r)
			}
		}()
		err = srv.Subscribe(fs)
	}()
	o.Answered = true
	if err != nil && err != io.EOF {
		o.RefusedAt = fs.n
		st, _ := status.FromError(err)
		o.Code = int(st.Code())
		if te, ok := err.(*errors.TypedError); ok {
			o.Code = int(errors.Status(te).Code())
		}
	}
	o.OK = o.RefusedAt == 0 && o.Panic == ""
	o.SentTo = map[string]Sent{}
	o.Polls = map[string]int{}
	var first []*gnmi.Subscription
	var firstMode string
	for i, m := range c.Msgs {
		if m.K == "sub" {
			j := 0
			for k := 0; k < i; k++ {
				if c.Msgs[k].K == "sub" {
					j++
				}
			}
			first, firstMode = orig[j], m.Mode
			break
		}
	}
	for name, t := range conns.targets {
		if t.polls > 0 {
			o.Polls[name] = t.polls
		}
		if len(t.subs) == 0 {
			continue
		}
		s := Sent{Exact: len(t.subs) == 1}
		req := t.subs[0]
		sl := req.GetSubscribe()
		s.Mode = sl.GetMode().String()
		exact := sl.GetMode() == modeOf(firstMode) && sl.GetUpdatesOnly() && sl.GetEncoding() == gnmi.Encoding_PROTO && sl.GetQos().GetMarking() == 7 &&
			sl.GetPrefix().GetTarget() == name
		for _, e := range sl.GetSubscription() {
			pos := 0
			for i, oe := range first {
				if oe == e || protov2.Equal(oe, e) {
					pos = i + 1
					break
				}
			}
			if pos == 0 {
				exact = false
			}
			s.Entries = append(s.Entries, pos)
		}
		if s.Entries == nil {
			s.Entries = []int{}
		}
		s.Exact = s.Exact && exact
		o.SentTo[name] = s
	}
	o.Relayed = []string{}
	for _, r := range fs.sent {
		o.Relayed = append(o.Relayed, r.GetUpdate().GetPrefix().GetTarget())
	}
	sort.Strings(o.Relayed)
}

// populate gives target t1 a stored configuration (through the real pipeline).
func populate(w *world.World) error {
	w.Trace = &world.Trace{}
	for _, st := range []world.Step{{K: "connup", T: "t1", Conn: "c1"}, {K: "drain"},
		{K: "set", H: "pop1", Ch: map[string]map[string]string{"t1": {"/a/b": "v1", "/ab": "v2", "/l[k=1]/x": "v3", "/m[j=2][k=1]/x": "v4"}}}, {K: "drain"}} {
		if err := w.Step(st); err != nil {
			return err
		}
	}
	w.AbandonHandlers()
	return nil
}

func main() {
	in := flag.String("in", "", "ndjson cases")
	outp := flag.String("out", "", "ndjson observations")
	flag.Parse()
	f, err := os.Open(*in)
	if err != nil {
		fmt.Fprintln(os.Stderr, "nbrun:", err)
		os.Exit(2)
	}
	of, err := os.Create(*outp)
	if err != nil {
		fmt.Fprintln(os.Stderr, "nbrun:", err)
		os.Exit(2)
	}
	enc := json.NewEncoder(of)
	w, err := world.New(world.Options{Targets: []string{"t1", "t2"}, Seed: 1})
	if err != nil {
		fmt.Fprintln(os.Stderr, "nbrun:", err)
		os.Exit(2)
	}
	dec := json.NewDecoder(f)
	n := 0
	populated := false
	for dec.More() {
		var raw json.RawMessage
		if err := dec.Decode(&raw); err != nil {
			fmt.Fprintln(os.Stderr, "nbrun:", err)
			os.Exit(2)
		}
		var c Case
		if err := json.Unmarshal(raw, &c); err != nil {
			fmt.Fprintln(os.Stderr, "nbrun:", err)
			os.Exit(2)
		}
		n++
		o := Out{Case: raw, Kind: c.Kind, Change: map[string]map[string]string{}, Targets: []string{}, SentTo: map[string]Sent{}, Polls: map[string]int{}, Relayed: []string{}}
		switch c.Kind {
		case "admission":
			w.SetLimit(c.Limit)
			req := &gnmi.SetRequest{}
			if c.PTarget != "" || c.PElems != "" {
				req.Prefix = relPath(c.PElems, c.PTarget)
			}
			for _, op := range c.Ops {
				p := relPath(op.Rel, op.Target)
				if op.Op == "delete" {
					req.Delete = append(req.Delete, p)
				} else {
					req.Update = append(req.Update, &gnmi.Update{Path: p, Val: &gnmi.TypedValue{Value: &gnmi.TypedValue_StringVal{StringVal: op.Val}}})
				}
			}
			switch c.Ext {
			case "sync":
				b, _ := proto.Marshal(&configapi.TransactionStrategy{Synchronicity: configapi.TransactionStrategy_SYNCHRONOUS})
				req.Extension = append(req.Extension, &gnmi_ext.Extension{Ext: &gnmi_ext.Extension_RegisteredExt{RegisteredExt: &gnmi_ext.RegisteredExtension{Id: configapi.TransactionStrategyExtensionID, Msg: b}}})
			case "bad":
				req.Extension = append(req.Extension, &gnmi_ext.Extension{Ext: &gnmi_ext.Extension_RegisteredExt{RegisteredExt: &gnmi_ext.RegisteredExtension{Id: configapi.TransactionStrategyExtensionID, Msg: []byte{0xff, 0xff, 0xff, 0x01}}}})
			}
			err = runSet(w, n, req, nil, &o)
		case "rbac-set":
			_ = os.Setenv("ADMINGROUPS", strings.Join(c.Admin, ","))
			md := map[string]string{}
			if c.Ident {
				md["name"] = "alice"
				md["preferred_username"] = "alice"
				md["groups"] = strings.Join(c.Groups, ";")
			}
			req := world.BuildSetRequest(map[string]map[string]string{"t1": {"/a/b": "v1"}}, false)
			err = runSet(w, n, req, md, &o)
			_ = os.Unsetenv("ADMINGROUPS")
		case "rbac-list":
			if c.OIDC {
				_ = os.Setenv("OIDC_SERVER_URL", "http://verif.invalid")
			}
			ctx := context.Background()
			kv := []string{"groups", strings.Join(c.Groups, ";")}
			if c.Ident {
				kv = append(kv, "name", "alice")
			}
			ctx = metadata.NewIncomingContext(ctx, metadata.Pairs(kv...))
			func() {
				defer func() {
					if r := recover(); r != nil {
						o.Panic = fmt.Sprint(r)
					}
				}()
				resp, gerr := w.NBServer().Get(ctx, &gnmi.GetRequest{Path: []*gnmi.Path{{Target: "*"}}, Encoding: gnmi.Encoding_PROTO})
				o.Answered = true
				if gerr != nil {
					st, _ := status.FromError(gerr)
					o.Code = int(st.Code())
					return
				}
				o.OK = true
				for _, nn := range resp.Notification {
					for _, u := range nn.Update {
						for _, e := range u.Val.GetLeaflistVal().GetElement() {
							o.Targets = append(o.Targets, e.GetStringVal())
						}
					}
				}
			}()
			_ = os.Unsetenv("OIDC_SERVER_URL")
		case "subscribe":
			runSubscribe(w, c, &o)
		case "shape":
			if c.Shape.Populated && !populated {
				if err := populate(w); err != nil {
					fmt.Fprintln(os.Stderr, "nbrun: populate:", err)
					os.Exit(2)
				}
				populated = true
			}
			err = runShape(w, n, c.Shape, &o)
		default:
			err = fmt.Errorf("unknown case kind %q", c.Kind)
		}
		if err != nil {
			fmt.Fprintf(os.Stderr, "nbrun: case %d: %v\n", n, err)
			os.Exit(2)
		}
		_ = enc.Encode(&o)
	}
	_ = of.Close()
	fmt.Printf("ran %d cases\n", n)
	os.Exit(0)
}
