// replay: run TLC-exported behaviours (schedules) on the real code and write the recorded traces.
package main

import (
	"flag"
	"fmt"
	"os"
	"path/filepath"
	"strings"
	"sync"

	"verif/harness/world"
)

func main() {
	in := flag.String("in", "", "ndjson file of scenarios")
	out := flag.String("out", "", "output directory for traces (one ndjson per scenario)")
	workers := flag.Int("workers", 8, "parallel worlds")
	flag.Parse()
	scs, err := world.LoadScenarios(*in)
	if err != nil {
		fmt.Fprintln(os.Stderr, "replay:", err)
		os.Exit(2)
	}
	_ = os.MkdirAll(*out, 0o755)
	type job struct {
		i int
		s world.Scenario
	}
	jobs := make(chan job)
	var wg sync.WaitGroup
	var mu sync.Mutex
	failed := 0
	for w := 0; w < *workers; w++ {
		wg.Add(1)
		go func() {
			defer wg.Done()
			for j := range jobs {
				tr, err := world.RunScenario(j.s)
				// the Atomix test cluster occasionally does not deliver an event of a stream opened a moment before
				// (seen about once in a thousand worlds): an infrastructure failure is retried in a fresh world, and
				// only reported when it persists
				for attempt := 0; err != nil && strings.Contains(err.Error(), "infra:") && attempt < 2; attempt++ {
					fmt.Fprintf(os.Stderr, "retry: scenario %s: %v\n", j.s.Name, err)
					tr, err = world.RunScenario(j.s)
				}
				name := j.s.Name
				if name == "" {
					name = fmt.Sprintf("s%05d", j.i)
				}
				if tr != nil {
					if werr := tr.WriteNDJSON(filepath.Join(*out, name+".ndjson")); werr != nil && err == nil {
						err = werr
					}
				}
				if err != nil {
					mu.Lock()
					failed++
					mu.Unlock()
					fmt.Fprintf(os.Stderr, "replay: scenario %s: %v\n", name, err)
				}
			}
		}()
	}
	for i, s := range scs {
		jobs <- job{i, s}
	}
	close(jobs)
	wg.Wait()
	fmt.Printf("replayed %d scenarios, %d infrastructure failures\n", len(scs), failed)
	if failed > 0 {
		os.Exit(2)
	}
}
