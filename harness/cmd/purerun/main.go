// purerun: run the REAL pure conversion functions of onos-config on cases enumerated by TLC from
// spec/pure/PureModel and record their results: textual <-> gNMI paths (C16), typed values (C17),
// JSON tree building and pruning, v2 and v3 (C18).
package main

import (
	"encoding/json"
	"flag"
	"fmt"
	"math"
	"os"
	"sort"
	"strconv"
	"strings"

	adminapi "github.com/onosproject/onos-api/go/onos/config/admin"
	configapi "github.com/onosproject/onos-api/go/onos/config/v2"
	configapiv3 "github.com/onosproject/onos-api/go/onos/config/v3"
	"github.com/onosproject/onos-config/pkg/utils"
	pathutils "github.com/onosproject/onos-config/pkg/utils/path"
	treev2 "github.com/onosproject/onos-config/pkg/utils/v2/tree"
	valuesv2 "github.com/onosproject/onos-config/pkg/utils/v2/values"
	treev3 "github.com/onosproject/onos-config/pkg/utils/v3/tree"
	valuesv3 "github.com/onosproject/onos-config/pkg/utils/v3/values"
	"github.com/openconfig/gnmi/proto/gnmi"
	"google.golang.org/protobuf/proto"
	"verif/harness/world"
)

type Item struct {
	P string `json:"p"`
	D bool   `json:"d"`
}
type Key struct {
	N string `json:"n"`
	V string `json:"v"`
}
type Elem struct {
	Name string `json:"name"`
	Keys []Key  `json:"keys"`
}
type Val struct {
	Type  string `json:"type"`
	Width int    `json:"width"`
	Cls   string `json:"cls"`
	N     int    `json:"n"`
	LL    bool   `json:"ll"`
}
type Case struct {
	Kind  string `json:"kind"`
	Items []Item `json:"items"`
	Elems []Elem `json:"elems"`
	Val   Val    `json:"val"`
}

type Out struct {
	Case  json.RawMessage `json:"case"`
	Kind  string          `json:"kind"`
	Panic string          `json:"panic"`
	// tree
	Flat2, Flat3               []string       `json:"-"`
	FlatV2                     []string       `json:"flatv2"`
	FlatV3                     []string       `json:"flatv3"`
	PrunedTopV2, PrunedNoTopV2 []string       `json:"-"`
	PTop2                      []string       `json:"ptop2"`
	PNoTop2                    []string       `json:"pnotop2"`
	PTop3                      []string       `json:"ptop3"`
	PNoTop3                    []string       `json:"pnotop3"`
	Lists2                     map[string]int `json:"lists2"`
	Lists3                     map[string]int `json:"lists3"`
	// path
	Text      string `json:"text"`
	Accepted  bool   `json:"accepted"`
	RoundTrip bool   `json:"roundtrip"`
	ParentOK  bool   `json:"parentok"`
	Collides  bool   `json:"collides"`
	// value
	RT2, RT3   bool   `json:"-"`
	RoundTrip2 bool   `json:"rt2"`
	RoundTrip3 bool   `json:"rt3"`
	JSONKind2  string `json:"jsonkind2"`
	JSONKind3  string `json:"jsonkind3"`
	JSONText2  string `json:"jsontext2"`
	JSONText3  string `json:"jsontext3"`
	ExpectText string `json:"expecttext"`
	Err        string `json:"err"`
}

func keyVal(v string) string {
	if v == "bs" {
		return "a\\b"
	}
	return v
}

// ---- tree
func jsonLists(raw []byte) map[string]int {
	out := map[string]int{}
	var root map[string]interface{}
	if json.Unmarshal(raw, &root) != nil {
		return out
	}
	for name, v := range root {
		if arr, ok := v.([]interface{}); ok {
			n := 0
			for _, e := range arr {
				if _, isObj := e.(map[string]interface{}); isObj {
					n++
				}
			}
			out[name] = n
		}
	}
	return out
}

func nonKeyLeaves(m map[string]string) []string {
	out := []string{}
	for p := range m {
		if strings.HasSuffix(p, "/k") || strings.HasSuffix(p, "/j") {
			continue
		}
		out = append(out, p)
	}
	sort.Strings(out)
	return out
}

func runTree(c Case, o *Out) {
	var v2 []*configapi.PathValue
	var v3 []configapiv3.PathValue
	for _, it := range c.Items {
		v2 = append(v2, &configapi.PathValue{Path: it.P, Deleted: it.D, Value: configapi.TypedValue{Bytes: []byte("v"), Type: configapi.ValueType_STRING}})
		v3 = append(v3, configapiv3.PathValue{Path: it.P, Deleted: it.D, Value: configapiv3.TypedValue{Bytes: []byte("v"), Type: configapiv3.ValueType_STRING}})
	}
	b2, err := treev2.BuildTree(v2, true)
	if err != nil {
		o.Err += "v2: " + err.Error()
	}
	f2, ferr := world.FlattenJSON(b2)
	if ferr != nil {
		o.Err += " flatten v2: " + ferr.Error()
	}
	o.FlatV2, o.Lists2 = nonKeyLeaves(f2), jsonLists(b2)
	b3, err := treev3.BuildTree(v3, true)
	if err != nil {
		o.Err += " v3: " + err.Error()
	}
	f3, ferr := world.FlattenJSON(b3)
	if ferr != nil {
		o.Err += " flatten v3: " + ferr.Error()
	}
	o.FlatV3, o.Lists3 = nonKeyLeaves(f3), jsonLists(b3)
	paths2 := func(pvs []*configapi.PathValue) []string {
		out := []string{}
		for _, pv := range pvs {
			out = append(out, pv.Path)
		}
		sort.Strings(out)
		return out
	}
	paths3 := func(pvs []configapiv3.PathValue) []string {
		out := []string{}
		for _, pv := range pvs {
			out = append(out, pv.Path)
		}
		sort.Strings(out)
		return out
	}
	o.PTop2, o.PNoTop2 = paths2(treev2.PrunePathValues(v2, true)), paths2(treev2.PrunePathValues(v2, false))
	o.PTop3, o.PNoTop3 = paths3(treev3.PrunePathValues(v3, true)), paths3(treev3.PrunePathValues(v3, false))
}

// ---- path
func gnmiOf(es []Elem) *gnmi.Path {
	p := &gnmi.Path{}
	for _, e := range es {
		pe := &gnmi.PathElem{Name: e.Name}
		if len(e.Keys) > 0 {
			pe.Key = map[string]string{}
			for _, k := range e.Keys {
				pe.Key[k.N] = keyVal(k.V)
			}
		}
		p.Elem = append(p.Elem, pe)
	}
	return p
}

func runPath(c Case, o *Out) {
	p := gnmiOf(c.Elems)
	o.Text = utils.StrPath(p)
	// accepted: what the Set handler lets through for a stored path (IsPathValid, and key values of the index alphabet)
	o.Accepted = pathutils.IsPathValid(o.Text) == nil
	for _, e := range c.Elems {
		for _, k := range e.Keys {
			if pathutils.CheckPathIndexIsValid(keyVal(k.V)) != nil {
				o.Accepted = false
			}
		}
	}
	back, err := utils.ParseGNMIElements(utils.SplitPath(o.Text))
	o.RoundTrip = err == nil && proto.Equal(back, p)
	if err != nil {
		o.Err = err.Error()
	}
	want := ""
	if len(c.Elems) > 1 {
		want = utils.StrPath(gnmiOf(c.Elems[:len(c.Elems)-1]))
	}
	o.ParentOK = pathutils.GetParentPath(o.Text) == want
}

// ---- value
func intOf(v Val) (int64, uint64) {
	w := uint(v.Width)
	switch v.Cls {
	case "min":
		if v.Type == "int" {
			return -(int64(1) << (w - 1)), 0
		}
		return 0, 0
	case "minus1":
		return -1, 0
	case "zero":
		return 0, 0
	case "one":
		return 1, 1
	case "max":
		if v.Type == "int" {
			return int64(1)<<(w-1) - 1, 0
		}
		if w == 64 {
			return 0, math.MaxUint64
		}
		return 0, uint64(1)<<w - 1
	case "p31":
		return int64(1) << 31, uint64(1) << 31
	case "p32":
		return int64(1) << 32, uint64(1) << 32
	case "p53m1":
		return int64(1)<<53 - 1, uint64(1)<<53 - 1
	case "p53p1":
		return int64(1)<<53 + 1, uint64(1)<<53 + 1
	}
	return 0, 0
}

func scalarOf(v Val, i int) (*gnmi.TypedValue, string) {
	switch v.Type {
	case "int":
		n, _ := intOf(v)
		n -= int64(i) * boolToInt(n > math.MinInt64+8)
		return &gnmi.TypedValue{Value: &gnmi.TypedValue_IntVal{IntVal: n}}, strconv.FormatInt(n, 10)
	case "uint":
		_, n := intOf(v)
		if n >= uint64(i) {
			n -= uint64(i)
		}
		return &gnmi.TypedValue{Value: &gnmi.TypedValue_UintVal{UintVal: n}}, strconv.FormatUint(n, 10)
	case "string":
		s := map[string]string{"empty": "", "plain": "hello", "unicode": "héllo ✓", "digits": "0123", "quote": `a"b\c`}[v.Cls] + strings.Repeat("x", i)
		return &gnmi.TypedValue{Value: &gnmi.TypedValue_StringVal{StringVal: s}}, s
	case "bool":
		b := v.Cls == "true"
		if i%2 == 1 {
			b = !b
		}
		return &gnmi.TypedValue{Value: &gnmi.TypedValue_BoolVal{BoolVal: b}}, strconv.FormatBool(b)
	case "bytes":
		b := map[string][]byte{"empty": {}, "zeros": {0, 0, 0}, "ff": {0xff, 0xfe, byte(i)}}[v.Cls]
		return &gnmi.TypedValue{Value: &gnmi.TypedValue_BytesVal{BytesVal: b}}, ""
	case "decimal":
		d := map[string]int64{"zero": 0, "one": 1, "max": math.MaxInt64, "minus1": -1, "frac": 123456}[v.Cls] - int64(i)
		return &gnmi.TypedValue{Value: &gnmi.TypedValue_DecimalVal{DecimalVal: &gnmi.Decimal64{Digits: d, Precision: uint32(v.Width)}}}, ""
	case "float":
		f := map[string]float32{"zero": 0, "one": 1, "frac": 1.5, "big": 3.0e20, "minus1": -1}[v.Cls] + float32(i)
		return &gnmi.TypedValue{Value: &gnmi.TypedValue_FloatVal{FloatVal: f}}, ""
	}
	return nil, ""
}

func boolToInt(b bool) int64 {
	if b {
		return 1
	}
	return 0
}

func jsonKindOf(raw []byte, leaf string) (string, string) {
	var root map[string]interface{}
	dec := json.NewDecoder(strings.NewReader(string(raw)))
	dec.UseNumber()
	if dec.Decode(&root) != nil {
		return "unparsable", ""
	}
	kind := func(x interface{}) (string, string) {
		switch t := x.(type) {
		case json.Number:
			return "number", t.String()
		case string:
			return "string", t
		case bool:
			return "bool", strconv.FormatBool(t)
		case nil:
			return "null", ""
		}
		return "other", ""
	}
	v, ok := root[leaf]
	if !ok {
		return "absent", ""
	}
	if arr, isArr := v.([]interface{}); isArr {
		kinds, texts := map[string]bool{}, []string{}
		for _, e := range arr {
			k, t := kind(e)
			kinds[k] = true
			texts = append(texts, t)
		}
		if len(arr) == 0 {
			return "empty-array", ""
		}
		ks := []string{}
		for k := range kinds {
			ks = append(ks, k)
		}
		sort.Strings(ks)
		return strings.Join(ks, "+"), strings.Join(texts, ",")
	}
	return kind(v)
}

func runValue(c Case, o *Out) {
	v := c.Val
	var tv *gnmi.TypedValue
	expect := []string{}
	if v.LL {
		arr := &gnmi.ScalarArray{}
		for i := 0; i < v.N; i++ {
			e, t := scalarOf(v, i)
			arr.Element = append(arr.Element, e)
			expect = append(expect, t)
		}
		tv = &gnmi.TypedValue{Value: &gnmi.TypedValue_LeaflistVal{LeaflistVal: arr}}
	} else {
		var t string
		tv, t = scalarOf(v, 0)
		expect = append(expect, t)
	}
	o.ExpectText = strings.Join(expect, ",")
	opt := uint64(v.Width)
	if v.Type == "decimal" {
		// a client may write 1.5 as (15, 1) on a leaf with fraction-digits 3: the model's option is deliberately
		// different from the precision of the value, which is what must survive
		opt = uint64(v.Width%6) + 2
	}
	rw := &adminapi.ReadWritePath{Path: "/leaf", TypeOpts: []uint64{opt}}
	rw3 := &configapiv3.ReadWritePath{Path: "/leaf", TypeOpts: []uint64{opt}}
	// v2
	n2, err := valuesv2.GnmiTypedValueToNativeType(tv, rw)
	if err != nil {
		o.Err += "v2 to native: " + err.Error()
	} else {
		back, err := valuesv2.NativeTypeToGnmiTypedValue(n2)
		o.RoundTrip2 = err == nil && proto.Equal(back, tv)
		if err != nil {
			o.Err += " v2 to gnmi: " + err.Error()
		}
		if b, err := treev2.BuildTree([]*configapi.PathValue{{Path: "/leaf", Value: *n2}}, true); err == nil {
			o.JSONKind2, o.JSONText2 = jsonKindOf(b, "leaf")
		}
	}
	// v3
	n3, err := valuesv3.GnmiTypedValueToNativeType(tv, rw3)
	if err != nil {
		o.Err += " v3 to native: " + err.Error()
	} else {
		back, err := valuesv3.NativeTypeToGnmiTypedValue(n3)
		o.RoundTrip3 = err == nil && proto.Equal(back, tv)
		if err != nil {
			o.Err += " v3 to gnmi: " + err.Error()
		}
		if b, err := treev3.BuildTree([]configapiv3.PathValue{{Path: "/leaf", Value: *n3}}, true); err == nil {
			o.JSONKind3, o.JSONText3 = jsonKindOf(b, "leaf")
		}
	}
}

func main() {
	in := flag.String("in", "", "ndjson cases")
	outp := flag.String("out", "", "ndjson results")
	flag.Parse()
	f, err := os.Open(*in)
	if err != nil {
		fmt.Fprintln(os.Stderr, "purerun:", err)
		os.Exit(2)
	}
	dec := json.NewDecoder(f)
	var outs []*Out
	texts := map[string][]int{}
	for dec.More() {
		var raw json.RawMessage
		if err := dec.Decode(&raw); err != nil {
			fmt.Fprintln(os.Stderr, "purerun:", err)
			os.Exit(2)
		}
		var c Case
		if err := json.Unmarshal(raw, &c); err != nil {
			fmt.Fprintln(os.Stderr, "purerun:", err)
			os.Exit(2)
		}
		o := &Out{Case: raw, Kind: c.Kind, FlatV2: []string{}, FlatV3: []string{}, PTop2: []string{}, PNoTop2: []string{}, PTop3: []string{}, PNoTop3: []string{},
			Lists2: map[string]int{}, Lists3: map[string]int{}}
		func() {
			defer func() {
				if r := recover(); r != nil {
					o.Panic = fmt.Sprint(r)
				}
			}()
			switch c.Kind {
			case "tree":
				runTree(c, o)
			case "path":
				runPath(c, o)
				texts[o.Text] = append(texts[o.Text], len(outs))
			case "value":
				runValue(c, o)
			}
		}()
		outs = append(outs, o)
	}
	for _, idx := range texts {
		if len(idx) > 1 {
			for _, i := range idx {
				outs[i].Collides = true
			}
		}
	}
	of, err := os.Create(*outp)
	if err != nil {
		fmt.Fprintln(os.Stderr, "purerun:", err)
		os.Exit(2)
	}
	enc := json.NewEncoder(of)
	for _, o := range outs {
		_ = enc.Encode(o)
	}
	_ = of.Close()
	fmt.Printf("ran %d cases\n", len(outs))
}
