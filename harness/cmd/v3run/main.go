// v3run: run TLC-exported v3 behaviours (schedules) on the real v3 code and write the recorded traces.
package main

import (
	"bufio"
	"encoding/json"
	"flag"
	"fmt"
	"os"
	"path/filepath"
	"strings"
	"sync"

	"verif/harness/world"
)

func main() {
	in := flag.String("in", "", "ndjson file of scenarios")
	out := flag.String("out", "", "output directory for traces (one ndjson per scenario)")
	workers := flag.Int("workers", 4, "parallel worlds")
	flag.Parse()
	f, err := os.Open(*in)
	if err != nil {
		fmt.Fprintln(os.Stderr, "v3run:", err)
		os.Exit(2)
	}
	var scs []world.V3Scenario
	sc := bufio.NewScanner(f)
	sc.Buffer(make([]byte, 1<<20), 1<<26)
	for sc.Scan() {
		if strings.TrimSpace(sc.Text()) == "" {
			continue
		}
		var s world.V3Scenario
		if err := json.Unmarshal(sc.Bytes(), &s); err != nil {
			fmt.Fprintln(os.Stderr, "v3run:", err)
			os.Exit(2)
		}
		scs = append(scs, s)
	}
	_ = os.MkdirAll(*out, 0o755)
	jobs := make(chan world.V3Scenario)
	var wg sync.WaitGroup
	var mu sync.Mutex
	failed := 0
	for w := 0; w < *workers; w++ {
		wg.Add(1)
		go func() {
			defer wg.Done()
			for s := range jobs {
				lines, err := world.RunV3Scenario(s)
				for attempt := 0; err != nil && strings.Contains(err.Error(), "infra:") && attempt < 2; attempt++ {
					fmt.Fprintf(os.Stderr, "retry: scenario %s: %v\n", s.Name, err)
					lines, err = world.RunV3Scenario(s)
				}
				if err == nil {
					err = world.WriteV3Trace(filepath.Join(*out, s.Name+".ndjson"), lines)
				}
				if err != nil {
					mu.Lock()
					failed++
					mu.Unlock()
					fmt.Fprintf(os.Stderr, "v3run: scenario %s: %v\n", s.Name, err)
				}
			}
		}()
	}
	for _, s := range scs {
		jobs <- s
	}
	close(jobs)
	wg.Wait()
	fmt.Printf("replayed %d scenarios, %d infrastructure failures\n", len(scs), failed)
	if failed > 0 {
		os.Exit(2)
	}
}
