// storerun: seeded concurrent histories against the REAL record stores (v2 transaction / proposal /
// configuration, v3 transaction / configuration) on the Atomix test cluster.  Several clients create, read
// and update records with the versions they read; watchers of every kind (all records or one, with or
// without replay) run alongside; one watcher stops consuming and cancels.  Every call is logged as an
// invoke and a return event under a global sequence number; every event each watcher receives is logged.
// The histories are validated by TLC against spec/store/StoreTrace.
package main

import (
	"context"
	"encoding/json"
	"flag"
	"fmt"
	"math/rand"
	"os"
	"strings"
	"sync"
	"sync/atomic"
	"time"

	"github.com/atomix/go-sdk/pkg/test"
	configapi "github.com/onosproject/onos-api/go/onos/config/v2"
	configapiv3 "github.com/onosproject/onos-api/go/onos/config/v3"
	cfgstore "github.com/onosproject/onos-config/pkg/store/v2/configuration"
	propstore "github.com/onosproject/onos-config/pkg/store/v2/proposal"
	txstore "github.com/onosproject/onos-config/pkg/store/v2/transaction"
	cfgstorev3 "github.com/onosproject/onos-config/pkg/store/v3/configuration"
	txstorev3 "github.com/onosproject/onos-config/pkg/store/v3/transaction"
	"github.com/onosproject/onos-lib-go/pkg/errors"
	"github.com/onosproject/onos-lib-go/pkg/logging"
)

// rec is an opaque handle on a record as read from the store (it carries the version read).
type rec interface{}

// kv adapts one store to the operations of the model.
type kv interface {
	Create(ctx context.Context, key string) (rec, uint64, uint64, error) // record, version, index
	Get(ctx context.Context, key string) (rec, uint64, error)
	Update(ctx context.Context, r rec, status bool) (uint64, error) // new version
	Watch(ctx context.Context, replay bool, key string, fn func(key string, ver uint64)) error
	HasIndex() bool
	ByID() bool // does Watch support a single-record filter
}

// a consumer that is slow to take the first event of its stream (the context says how slow)
type slowKey struct{}

func slowStart(ctx context.Context) {
	if d, ok := ctx.Value(slowKey{}).(time.Duration); ok {
		time.Sleep(d)
	}
}

// ---------------- v2 transaction
type v2tx struct {
	s    txstore.Store
	mu   sync.Mutex
	keys map[string]configapi.TransactionID
}

func (a *v2tx) HasIndex() bool { return true }
func (a *v2tx) ByID() bool     { return true }
func (a *v2tx) Create(ctx context.Context, key string) (rec, uint64, uint64, error) {
	t := &configapi.Transaction{ID: configapi.TransactionID(key), Details: &configapi.Transaction_Rollback{Rollback: &configapi.RollbackTransaction{RollbackIndex: 1}}}
	err := a.s.Create(ctx, t)
	return t, t.Version, uint64(t.Index), err
}
func (a *v2tx) Get(ctx context.Context, key string) (rec, uint64, error) {
	t, err := a.s.Get(ctx, configapi.TransactionID(key))
	if err != nil {
		return nil, 0, err
	}
	return t, t.Version, nil
}
func (a *v2tx) Update(ctx context.Context, r rec, status bool) (uint64, error) {
	t := r.(*configapi.Transaction)
	t.Username = fmt.Sprint(rand.Int())
	var err error
	if status {
		err = a.s.UpdateStatus(ctx, t)
	} else {
		err = a.s.Update(ctx, t)
	}
	return t.Version, err
}
func (a *v2tx) Watch(ctx context.Context, replay bool, key string, fn func(string, uint64)) error {
	ch := make(chan configapi.TransactionEvent)
	var opts []txstore.WatchOption
	if replay {
		opts = append(opts, txstore.WithReplay())
	}
	if key != "" {
		opts = append(opts, txstore.WithTransactionID(configapi.TransactionID(key)))
	}
	if err := a.s.Watch(ctx, ch, opts...); err != nil {
		return err
	}
	go func() {
		slowStart(ctx)
		for ev := range ch {
			fn(string(ev.Transaction.ID), ev.Transaction.Version)
		}
	}()
	return nil
}

// ---------------- v2 proposal
type v2prop struct{ s propstore.Store }

func (a *v2prop) HasIndex() bool { return false }
func (a *v2prop) ByID() bool     { return true }
func (a *v2prop) Create(ctx context.Context, key string) (rec, uint64, uint64, error) {
	p := &configapi.Proposal{ID: configapi.ProposalID(key), TargetID: "t", TransactionIndex: 1, Details: &configapi.Proposal_Rollback{Rollback: &configapi.RollbackProposal{RollbackIndex: 1}}}
	err := a.s.Create(ctx, p)
	return p, p.Version, 0, err
}
func (a *v2prop) Get(ctx context.Context, key string) (rec, uint64, error) {
	p, err := a.s.Get(ctx, configapi.ProposalID(key))
	if err != nil {
		return nil, 0, err
	}
	return p, p.Version, nil
}
func (a *v2prop) Update(ctx context.Context, r rec, status bool) (uint64, error) {
	p := r.(*configapi.Proposal)
	p.Status.NextIndex++
	var err error
	if status {
		err = a.s.UpdateStatus(ctx, p)
	} else {
		err = a.s.Update(ctx, p)
	}
	return p.Version, err
}
func (a *v2prop) Watch(ctx context.Context, replay bool, key string, fn func(string, uint64)) error {
	ch := make(chan configapi.ProposalEvent)
	var opts []propstore.WatchOption
	if replay {
		opts = append(opts, propstore.WithReplay())
	}
	if key != "" {
		opts = append(opts, propstore.WithProposalID(configapi.ProposalID(key)))
	}
	if err := a.s.Watch(ctx, ch, opts...); err != nil {
		return err
	}
	go func() {
		slowStart(ctx)
		for ev := range ch {
			fn(string(ev.Proposal.ID), ev.Proposal.Version)
		}
	}()
	return nil
}

// ---------------- v2 configuration
type v2cfg struct{ s cfgstore.Store }

func (a *v2cfg) HasIndex() bool { return false }
func (a *v2cfg) ByID() bool     { return true }
func (a *v2cfg) Create(ctx context.Context, key string) (rec, uint64, uint64, error) {
	c := &configapi.Configuration{ID: configapi.ConfigurationID(key), TargetID: configapi.TargetID(key)}
	err := a.s.Create(ctx, c)
	return c, c.Version, 0, err
}
func (a *v2cfg) Get(ctx context.Context, key string) (rec, uint64, error) {
	c, err := a.s.Get(ctx, configapi.ConfigurationID(key))
	if err != nil {
		return nil, 0, err
	}
	return c, c.Version, nil
}
func (a *v2cfg) Update(ctx context.Context, r rec, status bool) (uint64, error) {
	c := r.(*configapi.Configuration)
	c.Status.Proposed.Index++
	var err error
	if status {
		err = a.s.UpdateStatus(ctx, c)
	} else {
		err = a.s.Update(ctx, c)
	}
	return c.Version, err
}
func (a *v2cfg) Watch(ctx context.Context, replay bool, key string, fn func(string, uint64)) error {
	ch := make(chan configapi.ConfigurationEvent)
	var opts []cfgstore.WatchOption
	if replay {
		opts = append(opts, cfgstore.WithReplay())
	}
	if key != "" {
		opts = append(opts, cfgstore.WithConfigurationID(configapi.ConfigurationID(key)))
	}
	if err := a.s.Watch(ctx, ch, opts...); err != nil {
		return err
	}
	go func() {
		slowStart(ctx)
		for ev := range ch {
			fn(string(ev.Configuration.ID), ev.Configuration.Version)
		}
	}()
	return nil
}

// ---------------- v3 configuration
type v3cfg struct{ s cfgstorev3.Store }

func v3target(key string) configapiv3.Target {
	return configapiv3.Target{ID: configapiv3.TargetID(key), Type: "ty", Version: "1"}
}
func (a *v3cfg) HasIndex() bool { return false }
func (a *v3cfg) ByID() bool     { return true }
func (a *v3cfg) Create(ctx context.Context, key string) (rec, uint64, uint64, error) {
	c := &configapiv3.Configuration{ID: configapiv3.ConfigurationID{Target: v3target(key)}}
	err := a.s.Create(ctx, c)
	return c, c.Version, 0, err
}
func (a *v3cfg) Get(ctx context.Context, key string) (rec, uint64, error) {
	c, err := a.s.Get(ctx, configapiv3.ConfigurationID{Target: v3target(key)})
	if err != nil {
		return nil, 0, err
	}
	return c, c.Version, nil
}
func (a *v3cfg) Update(ctx context.Context, r rec, status bool) (uint64, error) {
	c := r.(*configapiv3.Configuration)
	c.Status.State = (c.Status.State + 1) % 3
	var err error
	if status {
		err = a.s.UpdateStatus(ctx, c)
	} else {
		err = a.s.Update(ctx, c)
	}
	return c.Version, err
}
func (a *v3cfg) Watch(ctx context.Context, replay bool, key string, fn func(string, uint64)) error {
	ch := make(chan configapiv3.ConfigurationEvent)
	var opts []cfgstorev3.WatchOption
	if replay {
		opts = append(opts, cfgstorev3.WithReplay())
	}
	if key != "" {
		opts = append(opts, cfgstorev3.WithConfigurationID(configapiv3.ConfigurationID{Target: v3target(key)}))
	}
	if err := a.s.Watch(ctx, ch, opts...); err != nil {
		return err
	}
	go func() {
		slowStart(ctx)
		for ev := range ch {
			fn(string(ev.Configuration.ID.Target.ID), ev.Configuration.Version)
		}
	}()
	return nil
}

// ---------------- v3 transaction (one target; the key is the transaction key)
type v3tx struct{ s txstorev3.Store }

func (a *v3tx) HasIndex() bool { return true }
func (a *v3tx) ByID() bool     { return false }
func (a *v3tx) Create(ctx context.Context, key string) (rec, uint64, uint64, error) {
	t := &configapiv3.Transaction{ID: configapiv3.TransactionID{Target: v3target("t")}}
	t.Key = key
	err := a.s.Create(ctx, t)
	return t, t.Version, uint64(t.ID.Index), err
}
func (a *v3tx) Get(ctx context.Context, key string) (rec, uint64, error) {
	t, err := a.s.GetKey(ctx, v3target("t"), key)
	if err != nil {
		return nil, 0, err
	}
	return t, t.Version, nil
}
func (a *v3tx) Update(ctx context.Context, r rec, status bool) (uint64, error) {
	t := r.(*configapiv3.Transaction)
	t.Status.Change.Ordinal++
	var err error
	if status {
		err = a.s.UpdateStatus(ctx, t)
	} else {
		err = a.s.Update(ctx, t)
	}
	return t.Version, err
}
func (a *v3tx) Watch(ctx context.Context, replay bool, key string, fn func(string, uint64)) error {
	ch := make(chan configapiv3.TransactionEvent)
	var opts []txstorev3.WatchOption
	if replay {
		opts = append(opts, txstorev3.WithReplay())
	}
	if err := a.s.Watch(ctx, ch, opts...); err != nil {
		return err
	}
	go func() {
		slowStart(ctx)
		for ev := range ch {
			fn(ev.Transaction.Key, ev.Transaction.Version)
		}
	}()
	return nil
}

// ---------------- history
type Event struct {
	Seq  int64  `json:"seq"`
	Inv  int64  `json:"inv"` // sequence number of the matching invoke (return events)
	K    string `json:"k"`   // inv | ret
	C    int    `json:"c"`   // client
	N    int    `json:"n"`   // operation number of the client
	Op   string `json:"op"`
	Key  string `json:"key"`
	Base uint64 `json:"base"` // version the update is conditioned on
	OK   bool   `json:"ok"`
	Conf bool   `json:"conflict"` // failed with a conflict / not-found / already-exists class
	Ver  uint64 `json:"ver"`
	Idx  uint64 `json:"idx"`
	Err  string `json:"err"`
}

type WatcherLog struct {
	Replay bool                `json:"replay"`
	Key    string              `json:"key"`
	Bad    bool                `json:"bad"`   // stops consuming and cancels
	Start  int64               `json:"start"` // sequence number when Watch returned
	Events [][]uint64          `json:"-"`
	Seen   map[string][]uint64 `json:"seen"`  // key -> versions in delivery order
	Final  map[string]bool     `json:"final"` // key -> was the final version delivered within the bound
}

type History struct {
	Store    string                 `json:"store"`
	Seed     int64                  `json:"seed"`
	Kind     string                 `json:"kind"`
	Events   []Event                `json:"events"`
	Watchers map[string]*WatcherLog `json:"watchers"`
	Final    map[string]uint64      `json:"final"`
	HasIndex bool                   `json:"hasindex"`
	StallMs  int                    `json:"stallms"`
}

type recorder struct {
	seq int64
	mu  sync.Mutex
	evs []Event
}

func (r *recorder) add(e Event) int64 {
	r.mu.Lock()
	defer r.mu.Unlock()
	e.Seq = atomic.AddInt64(&r.seq, 1)
	r.evs = append(r.evs, e)
	return e.Seq
}

func isConflict(err error) bool {
	return errors.IsConflict(err) || errors.IsNotFound(err) || errors.IsAlreadyExists(err)
}

func newStore(kind string, c *test.Client) (kv, error) {
	switch kind {
	case "v2tx":
		s, err := txstore.NewAtomixStore(c)
		return &v2tx{s: s}, err
	case "v2prop":
		s, err := propstore.NewAtomixStore(c)
		return &v2prop{s: s}, err
	case "v2cfg":
		s, err := cfgstore.NewAtomixStore(c)
		return &v2cfg{s: s}, err
	case "v3cfg":
		s, err := cfgstorev3.NewAtomixStore(c)
		return &v3cfg{s: s}, err
	case "v3tx":
		s, err := txstorev3.NewAtomixStore(c)
		return &v3tx{s: s}, err
	}
	return nil, fmt.Errorf("unknown store %q", kind)
}

func runHistory(kind string, seed int64, nclients, nops int, bound time.Duration) (*History, error) {
	cluster := test.NewClient()
	defer func() {
		done := make(chan struct{})
		go func() { cluster.Close(); close(done) }()
		select {
		case <-done:
		case <-time.After(3 * time.Second):
		}
	}()
	st, err := newStore(kind, cluster)
	if err != nil {
		return nil, err
	}
	ctx := context.Background()
	h := &History{Store: kind, Seed: seed, Kind: "history", Watchers: map[string]*WatcherLog{}, Final: map[string]uint64{}, HasIndex: st.HasIndex()}
	rc := &recorder{}
	rng := rand.New(rand.NewSource(seed))
	keys := []string{"k1", "k2"}
	// two records exist before anybody watches
	for _, k := range keys {
		inv := rc.add(Event{K: "inv", C: 0, Op: "create", Key: k})
		_, ver, idx, err := st.Create(ctx, k)
		rc.add(Event{K: "ret", Inv: inv, C: 0, Op: "create", Key: k, OK: err == nil, Ver: ver, Idx: idx})
		if err != nil {
			return nil, fmt.Errorf("setup create: %v", err)
		}
	}
	var wmu sync.Mutex
	startWatcher := func(name string, replay bool, key string, bad bool, readBeforeStop int) (context.CancelFunc, error) {
		wctx, cancel := context.WithCancel(ctx)
		wl := &WatcherLog{Replay: replay, Key: key, Bad: bad, Seen: map[string][]uint64{}, Final: map[string]bool{}}
		h.Watchers[name] = wl
		n := 0
		stop := make(chan struct{})
		if strings.HasPrefix(name, "late") {
			// a consumer that is slow to take its first event (what it replays): writes made meanwhile must still reach it
			wctx = context.WithValue(wctx, slowKey{}, 40*time.Millisecond)
		}
		err := st.Watch(wctx, replay, key, func(k string, ver uint64) {
			if bad {
				n++
				if n > readBeforeStop {
					// this consumer stops reading: it blocks forever (its watch gets cancelled by the driver)
					<-stop
				}
			}
			wmu.Lock()
			wl.Seen[k] = append(wl.Seen[k], ver)
			wmu.Unlock()
		})
		wl.Start = atomic.LoadInt64(&rc.seq)
		return cancel, err
	}
	if _, err := startWatcher("all-replay", true, "", false, 0); err != nil {
		return nil, err
	}
	if _, err := startWatcher("all-noreplay", false, "", false, 0); err != nil {
		return nil, err
	}
	if st.ByID() {
		if _, err := startWatcher("k1-replay", true, "k1", false, 0); err != nil {
			return nil, err
		}
	}
	badCancel, err := startWatcher("bad", rng.Intn(2) == 0, "", true, rng.Intn(3))
	if err != nil {
		return nil, err
	}
	cancelAfter := int64(rng.Intn(nclients*nops) + 4)
	var wg sync.WaitGroup
	var created int32
	for c := 1; c <= nclients; c++ {
		wg.Add(1)
		go func(c int, r *rand.Rand) {
			defer wg.Done()
			local := map[string]rec{}
			lver := map[string]uint64{}
			for n := 1; n <= nops; n++ {
				k := keys[r.Intn(len(keys))]
				switch x := r.Intn(10); {
				case x < 3 || local[k] == nil:
					inv := rc.add(Event{K: "inv", C: c, N: n, Op: "get", Key: k})
					rr, ver, err := st.Get(ctx, k)
					rc.add(Event{K: "ret", Inv: inv, C: c, N: n, Op: "get", Key: k, OK: err == nil, Ver: ver})
					if err == nil {
						local[k], lver[k] = rr, ver
					}
				case x < 9:
					status := r.Intn(2) == 0
					op := "update"
					if status {
						op = "updatestatus"
					}
					inv := rc.add(Event{K: "inv", C: c, N: n, Op: op, Key: k, Base: lver[k]})
					ver, err := st.Update(ctx, local[k], status)
					e := Event{K: "ret", Inv: inv, C: c, N: n, Op: op, Key: k, Base: lver[k], OK: err == nil, Ver: ver}
					if err != nil {
						e.Conf, e.Err, e.Ver = isConflict(err), err.Error(), 0
						local[k] = nil
					} else {
						lver[k] = ver
					}
					rc.add(e)
				default:
					nk := fmt.Sprintf("n%d", atomic.AddInt32(&created, 1))
					inv := rc.add(Event{K: "inv", C: c, N: n, Op: "create", Key: nk})
					_, ver, idx, err := st.Create(ctx, nk)
					e := Event{K: "ret", Inv: inv, C: c, N: n, Op: "create", Key: nk, OK: err == nil, Ver: ver, Idx: idx}
					if err != nil {
						e.Conf, e.Err = isConflict(err), err.Error()
					}
					rc.add(e)
				}
				if atomic.LoadInt64(&rc.seq) > cancelAfter {
					badCancel() // idempotent
				}
			}
		}(c, rand.New(rand.NewSource(seed*100+int64(c))))
	}
	wg.Wait()
	badCancel()
	// a watcher that joins late, replays, and is slow to read: the final writes land while it has not read anything
	if st.ByID() {
		if _, err := startWatcher("late-k1-replay", true, "k1", false, 0); err != nil {
			return nil, err
		}
	}
	if _, err := startWatcher("late-all-replay", true, "", false, 0); err != nil {
		return nil, err
	}
	time.Sleep(5 * time.Millisecond) // the store has read what it replays
	// final state: one more successful write per original key, then every live good watcher must see it
	t0 := time.Now()
	allKeys := append([]string{}, keys...)
	for _, k := range allKeys {
		for try := 0; ; try++ {
			rr, base, err := st.Get(ctx, k)
			if err != nil {
				return nil, fmt.Errorf("final get: %v", err)
			}
			inv := rc.add(Event{K: "inv", C: 0, N: 1000 + try, Op: "updatestatus", Key: k, Base: base})
			ver, err := st.Update(ctx, rr, true)
			if err == nil {
				rc.add(Event{K: "ret", Inv: inv, C: 0, N: 1000 + try, Op: "updatestatus", Key: k, OK: true, Ver: ver, Base: base})
				h.Final[k] = ver
				break
			}
			rc.add(Event{K: "ret", Inv: inv, C: 0, N: 1000 + try, Op: "updatestatus", Key: k, OK: false, Conf: isConflict(err), Base: base})
			if try > 20 {
				return nil, fmt.Errorf("final update never succeeds: %v", err)
			}
		}
	}
	deadline := time.Now().Add(bound)
	for {
		done := true
		wmu.Lock()
		for name, wl := range h.Watchers {
			if wl.Bad {
				continue
			}
			for _, k := range allKeys {
				if wl.Key != "" && wl.Key != k {
					continue
				}
				got := false
				for _, v := range wl.Seen[k] {
					if v == h.Final[k] {
						got = true
					}
				}
				wl.Final[k] = got
				if !got {
					done = false
				}
			}
			_ = name
		}
		wmu.Unlock()
		if done || time.Now().After(deadline) {
			break
		}
		time.Sleep(5 * time.Millisecond)
	}
	h.StallMs = int(time.Since(t0) / time.Millisecond)
	// base version 0 in the final writes means "whatever was current": fill in from the log for the checker
	rc.mu.Lock()
	h.Events = rc.evs
	rc.mu.Unlock()
	wmu.Lock()
	for _, wl := range h.Watchers {
		if wl.Seen == nil {
			wl.Seen = map[string][]uint64{}
		}
	}
	wmu.Unlock()
	return h, nil
}

func main() {
	logging.SetLevel(logging.FatalLevel)
	kind := flag.String("store", "v2cfg", "v2tx|v2prop|v2cfg|v3tx|v3cfg")
	n := flag.Int("n", 10, "histories")
	seed := flag.Int64("seed", 1, "seed")
	clients := flag.Int("clients", 3, "clients")
	ops := flag.Int("ops", 8, "operations per client")
	boundMs := flag.Int("bound", 10000, "milliseconds a live watcher may take to be shown the final state")
	outp := flag.String("out", "", "output ndjson")
	from := flag.Int("from", 0, "first history index (re-runs of one history)")
	flag.Parse()
	of, err := os.Create(*outp)
	if err != nil {
		fmt.Fprintln(os.Stderr, "storerun:", err)
		os.Exit(2)
	}
	enc := json.NewEncoder(of)
	for i := *from; i < *n; i++ {
		h, err := runHistory(*kind, *seed*1000+int64(i), *clients, *ops, time.Duration(*boundMs)*time.Millisecond)
		if err != nil {
			fmt.Fprintf(os.Stderr, "storerun: history %d: %v\n", i, err)
			os.Exit(2)
		}
		_ = enc.Encode(h)
	}
	_ = of.Close()
	fmt.Printf("ran %d histories on %s\n", *n, *kind)
}
