// datarun: run request histories (exported by TLC from spec/data/ConfigData) through the REAL northbound
// Set / RollbackTransaction handlers and controllers on a single connected target and record what is
// observable after each request: northbound Get (PROTO and JSON, whole tree and patterns), the document
// shown to the model plugin, and the device's configuration.  One ndjson line per request.
package main

import (
	"context"
	"encoding/json"
	"flag"
	"fmt"
	"os"
	"strings"
	"sync"

	"github.com/golang/protobuf/proto"
	"github.com/openconfig/gnmi/proto/gnmi"
	"verif/harness/world"
)

type Op struct {
	Kind string            `json:"kind"` // set | rollback
	Ch   map[string]string `json:"ch"`
	Re   []string          `json:"re"`   // updated paths that the request also deletes (deletes take effect first)
	Mode string            `json:"mode"` // how the request addresses its target: "" (in every path) | prefix | split
}

type Case struct {
	Name     string   `json:"name"`
	Ops      []Op     `json:"ops"`
	Patterns []string `json:"patterns"`
	Seed     int64    `json:"seed"`
}

type Line struct {
	Case     string                       `json:"case"`
	N        int                          `json:"n"` // 0 = start of a case
	Kind     string                       `json:"kind"`
	Ch       map[string]string            `json:"ch"`
	Answered bool                         `json:"answered"`
	OK       bool                         `json:"ok"`
	Code     int                          `json:"code"`
	TxState  string                       `json:"txstate"`
	Get      map[string]string            `json:"get"`
	GetJSON  map[string]string            `json:"getjson"`
	Pat      map[string]map[string]string `json:"pat"`
	Via      map[string]map[string]string `json:"via"`  // the whole tree, addressed in other ways
	PatP     map[string]map[string]string `json:"patp"` // the patterns, split over prefix and path
	Dev      map[string]string            `json:"dev"`
	Doc      map[string]string            `json:"doc"`
	HasDoc   bool                         `json:"hasdoc"`
	DocSize  int                          `json:"docsize"`
	Chunks   []int                        `json:"chunks"`
	Idle     bool                         `json:"idle"`
	Err      string                       `json:"err"`
}

// flatten a GetResponse the way world.GetPath does
func flatten(resp *gnmi.GetResponse) (map[string]string, error) {
	out := map[string]string{}
	for _, n := range resp.Notification {
		for _, u := range n.Update {
			if u.Val == nil {
				continue
			}
			if j := u.Val.GetJsonVal(); j != nil {
				leaves, err := world.FlattenJSON(j)
				if err != nil {
					return nil, err
				}
				for k, v := range leaves {
					out[k] = v
				}
				continue
			}
			out[world.PathToStr(u.Path)] = world.TypedValueToStr(u.Val)
		}
	}
	return out, nil
}

func getReq(w *world.World, req *gnmi.GetRequest) (map[string]string, error) {
	resp, err := w.NBServer().Get(context.Background(), req)
	if err != nil {
		return nil, err
	}
	return flatten(resp)
}

// setRequest builds the request of an operation in the addressing mode it asks for
func setRequest(op Op) *gnmi.SetRequest {
	full := world.BuildSetRequest(map[string]map[string]string{"t1": op.Ch}, true)
	for _, p := range op.Re {
		gp := world.StrToPath(p)
		gp.Target = "t1"
		full.Delete = append(full.Delete, gp)
	}
	if op.Mode == "" {
		return full
	}
	all := []*gnmi.Path{}
	for _, u := range full.Update {
		all = append(all, u.Path)
	}
	all = append(all, full.Delete...)
	full.Prefix = &gnmi.Path{Target: "t1"}
	for _, gp := range all {
		gp.Target = ""
	}
	if op.Mode == "split" {
		// the first element goes to the prefix if every operation shares it and has something left
		common := true
		for _, gp := range all {
			if len(gp.Elem) < 2 || !proto.Equal(gp.Elem[0], all[0].Elem[0]) {
				common = false
			}
		}
		if common && len(all) > 0 {
			full.Prefix.Elem = []*gnmi.PathElem{all[0].Elem[0]}
			for _, gp := range all {
				gp.Elem = gp.Elem[1:]
			}
		}
	}
	return full
}

func runCase(c Case) ([]Line, error) {
	w, err := world.New(world.Options{Targets: []string{"t1"}, Seed: c.Seed})
	if err != nil {
		return nil, err
	}
	defer w.Close()
	w.Trace = &world.Trace{}
	var out []Line
	step := func(s world.Step) error { return w.Step(s) }
	if err := step(world.Step{K: "connup", T: "t1", Conn: "c1"}); err != nil {
		return nil, err
	}
	if err := step(world.Step{K: "drain"}); err != nil {
		return nil, err
	}
	out = append(out, Line{Case: c.Name, N: 0, Kind: "init", Ch: map[string]string{}, Get: map[string]string{}, GetJSON: map[string]string{},
		Pat: map[string]map[string]string{}, Via: map[string]map[string]string{}, PatP: map[string]map[string]string{}, Dev: map[string]string{}, Doc: map[string]string{}, Chunks: []int{}})
	var reflected []int // indexes of the changes the configuration reflects (for rollback requests)
	for i, op := range c.Ops {
		hn := fmt.Sprintf("h%d", i+1)
		l := Line{Case: c.Name, N: i + 1, Kind: op.Kind, Ch: op.Ch, Pat: map[string]map[string]string{}, Doc: map[string]string{}, Chunks: []int{}}
		if l.Ch == nil {
			l.Ch = map[string]string{}
		}
		switch op.Kind {
		case "set":
			if op.Mode == "" && len(op.Re) == 0 {
				err = step(world.Step{K: "set", H: hn, Sync: true, Ch: map[string]map[string]string{"t1": op.Ch}})
			} else {
				if _, err = w.StartSetRaw(hn, setRequest(op), nil); err == nil {
					err = w.Settle()
				}
			}
		case "rollback":
			idx := 0
			if len(reflected) > 0 {
				idx = reflected[len(reflected)-1]
			}
			err = step(world.Step{K: "rollback", H: hn, Idx: idx})
		default:
			err = fmt.Errorf("unknown op %q", op.Kind)
		}
		if err != nil {
			return out, err
		}
		if err := step(world.Step{K: "drain"}); err != nil {
			return out, err
		}
		last := w.Trace.Lines[len(w.Trace.Lines)-1]
		l.Idle = last.Quiet
		h := last.H[hn]
		l.Answered = h.St == "done"
		l.OK, l.Code = h.OK, h.Code
		if h.Tx > 0 && h.Tx <= len(last.Txs) {
			l.TxState = last.Txs[h.Tx-1].State
			committed := last.Txs[h.Tx-1].Ph.Com == "D"
			if committed {
				if op.Kind == "set" {
					reflected = append(reflected, h.Tx)
				} else if len(reflected) > 0 {
					reflected = reflected[:len(reflected)-1]
				}
			}
		}
		// the document the plugin accepted for this request
		for _, tl := range w.Trace.Lines {
			for _, pc := range tl.Plug {
				if pc.ID == fmt.Sprintf("t1-%d", h.Tx) && pc.Valid {
					l.Doc, l.HasDoc, l.DocSize, l.Chunks = pc.Leaves, true, pc.Size, pc.Chunks
				}
			}
		}
		if l.Get, err = w.GetAll("t1", gnmi.Encoding_PROTO); err != nil {
			l.Err = "get: " + err.Error()
			l.Get = map[string]string{}
		}
		if l.GetJSON, err = w.GetAll("t1", gnmi.Encoding_JSON_IETF); err != nil {
			l.Err += " getjson: " + err.Error()
			l.GetJSON = map[string]string{}
		}
		for _, p := range c.Patterns {
			m, perr := w.GetPath("t1", p, gnmi.Encoding_PROTO)
			if perr != nil {
				l.Err += " pat " + p + ": " + perr.Error()
				m = map[string]string{}
			}
			l.Pat[p] = m
		}
		// the same reads, addressed differently: target in the prefix, nothing but the prefix, pattern split over both
		l.Via, l.PatP = map[string]map[string]string{}, map[string]map[string]string{}
		if m, verr := getReq(w, &gnmi.GetRequest{Prefix: &gnmi.Path{Target: "t1"}, Encoding: gnmi.Encoding_PROTO}); verr == nil {
			l.Via["prefix-only"] = m
		} else {
			l.Err += " via prefix-only: " + verr.Error()
		}
		if m, verr := getReq(w, &gnmi.GetRequest{Prefix: &gnmi.Path{Target: "t1"}, Path: []*gnmi.Path{{}}, Encoding: gnmi.Encoding_PROTO}); verr == nil {
			l.Via["prefix-root"] = m
		} else {
			l.Err += " via prefix-root: " + verr.Error()
		}
		for _, p := range c.Patterns {
			gp := world.StrToPath(p)
			if len(gp.Elem) < 2 {
				continue
			}
			req := &gnmi.GetRequest{Prefix: &gnmi.Path{Target: "t1", Elem: gp.Elem[:1]}, Path: []*gnmi.Path{{Elem: gp.Elem[1:]}}, Encoding: gnmi.Encoding_PROTO}
			if m, verr := getReq(w, req); verr == nil {
				l.PatP[p] = m
			} else {
				l.Err += " patp " + p + ": " + verr.Error()
			}
		}
		l.Dev, _ = w.Device("t1").Snapshot()
		out = append(out, l)
	}
	// the device restarts empty and is connected again: what was applied is pushed again
	if len(c.Ops) > 0 {
		for _, st := range []world.Step{{K: "devrestart", T: "t1"}, {K: "connup", T: "t1", Conn: "c9"}, {K: "drain"}} {
			if err := step(st); err != nil {
				return out, err
			}
		}
		last := w.Trace.Lines[len(w.Trace.Lines)-1]
		l := Line{Case: c.Name, N: len(c.Ops) + 1, Kind: "resync", Ch: map[string]string{}, Idle: last.Quiet, Get: map[string]string{}, GetJSON: map[string]string{},
			Pat: map[string]map[string]string{}, Via: map[string]map[string]string{}, PatP: map[string]map[string]string{}, Doc: map[string]string{}, Chunks: []int{}}
		if cfg, ok := last.Cfgs["t1"]; ok {
			l.TxState = cfg.State
		}
		l.Dev, _ = w.Device("t1").Snapshot()
		out = append(out, l)
	}
	return out, nil
}

func main() {
	in := flag.String("in", "", "ndjson file of cases")
	outp := flag.String("out", "", "output ndjson")
	workers := flag.Int("workers", 16, "parallel worlds")
	flag.Parse()
	f, err := os.Open(*in)
	if err != nil {
		fmt.Fprintln(os.Stderr, "datarun:", err)
		os.Exit(2)
	}
	dec := json.NewDecoder(f)
	var cases []Case
	for dec.More() {
		var c Case
		if err := dec.Decode(&c); err != nil {
			fmt.Fprintln(os.Stderr, "datarun:", err)
			os.Exit(2)
		}
		cases = append(cases, c)
	}
	results := make([][]Line, len(cases))
	var wg sync.WaitGroup
	var mu sync.Mutex
	failed := 0
	jobs := make(chan int)
	for i := 0; i < *workers; i++ {
		wg.Add(1)
		go func() {
			defer wg.Done()
			for j := range jobs {
				ls, err := runCase(cases[j])
				// an infrastructure failure (the Atomix test runtime occasionally drops an event stream) is retried in a fresh world
				for attempt := 0; err != nil && strings.Contains(err.Error(), "infra:") && attempt < 2; attempt++ {
					fmt.Fprintf(os.Stderr, "retry: case %s: %v\n", cases[j].Name, err)
					ls, err = runCase(cases[j])
				}
				results[j] = ls
				if err != nil {
					mu.Lock()
					failed++
					mu.Unlock()
					fmt.Fprintf(os.Stderr, "datarun: case %s: %v\n", cases[j].Name, err)
				}
			}
		}()
	}
	for j := range cases {
		jobs <- j
	}
	close(jobs)
	wg.Wait()
	of, err := os.Create(*outp)
	if err != nil {
		fmt.Fprintln(os.Stderr, "datarun:", err)
		os.Exit(2)
	}
	enc := json.NewEncoder(of)
	for _, ls := range results {
		for i := range ls {
			_ = enc.Encode(&ls[i])
		}
	}
	_ = of.Close()
	fmt.Printf("ran %d cases, %d infrastructure failures\n", len(cases), failed)
	if failed > 0 {
		os.Exit(2)
	}
}
