package world

import (
	"encoding/json"
	"fmt"
	"os"
	"time"

	sb "github.com/onosproject/onos-config/pkg/southbound/gnmi"
	"github.com/openconfig/gnmi/proto/gnmi"
	"google.golang.org/grpc/codes"
)

// Step is one scheduler / environment / client event of a behaviour. A behaviour is a schedule
// and fault script, not an oracle of state: reconcile picks are hints that are executed only if
// the id really is pending in the real work set.
type Step struct {
	K      string                       `json:"k"`    // set rollback hexec run begin exec crash restart connup conndown devrestart devfail drain observe probe
	C      string                       `json:"c"`    // controller: tx prop cfg mast conn
	ID     string                       `json:"id"`   // reconcile id (cfg/mast: target)
	A      string                       `json:"a"`    // actor (exec)
	H      string                       `json:"h"`    // handler name
	T      string                       `json:"t"`    // target
	Conn   string                       `json:"conn"` // connection id
	Code   int                          `json:"code"` // devfail: gRPC code
	Cnt    int                          `json:"cnt"`  // devfail: burst length
	Idx    int                          `json:"idx"`  // rollback index
	Sync   bool                         `json:"sync"`
	Fine   bool                         `json:"fine"`
	Ch     map[string]map[string]string `json:"ch"`
	Auto   bool                         `json:"auto"`             // chosen by the drain, not by the behaviour
	During []Step                       `json:"during,omitempty"` // hexec (the Watch step): reconciles run while the handler has not yet read its stream
	Pol    string                       `json:"pol"`              // drain: "" seeded random | newest | oldest (which pending work goes first)
}

// Scenario is what TLC exports: constants of the world plus the behaviour.
type Scenario struct {
	Name     string          `json:"name"`
	Targets  []string        `json:"targets"`
	NoPlugin []string        `json:"noplugin"`
	Limit    int             `json:"limit"`
	Seed     int64           `json:"seed"`
	Steps    []Step          `json:"steps"`
	Meta     json.RawMessage `json:"meta,omitempty"`
}

func LoadScenarios(path string) ([]Scenario, error) {
	f, err := os.Open(path)
	if err != nil {
		return nil, err
	}
	defer f.Close()
	dec := json.NewDecoder(f)
	var out []Scenario
	for dec.More() {
		var s Scenario
		if err := dec.Decode(&s); err != nil {
			return nil, err
		}
		out = append(out, s)
	}
	return out, nil
}

// ConnIDOf converts a string to the southbound connection id type.
func ConnIDOf(s string) sb.ConnID { return sb.ConnID(s) }

// RunScenario executes a behaviour on a fresh world and returns the recorded trace.
func RunScenario(s Scenario) (*Trace, error) {
	np := map[string]bool{}
	for _, t := range s.NoPlugin {
		np[t] = true
	}
	w, err := New(Options{Targets: s.Targets, NoPlugin: np, SetSizeLimit: s.Limit, Seed: s.Seed})
	if err != nil {
		return nil, err
	}
	defer w.Close()
	w.Trace = &Trace{}
	if err := w.record(Step{K: "init"}, true); err != nil {
		return w.Trace, err
	}
	for _, st := range s.Steps {
		if err := w.Step(st); err != nil {
			return w.Trace, err
		}
		if ps := w.TakePanics(); len(ps) > 0 {
			return w.Trace, fmt.Errorf("reconcile panicked: %s", ps[0])
		}
	}
	return w.Trace, nil
}

func (w *World) cfgCtlKey(c, id string) string {
	if c == "cfg" || c == "mast" {
		return string(w.cfgID(id))
	}
	return id
}

// Step executes one step, lets the real event plumbing settle, and records a trace line.
func (w *World) Step(st Step) error {
	done := true
	var err error
	switch st.K {
	case "set":
		if w.proc == nil {
			done = false
			break
		}
		err = w.StartSet(st.H, st.Ch, st.Sync, st.Fine)
	case "rollback":
		if w.proc == nil {
			done = false
			break
		}
		err = w.StartRollback(st.H, st.Idx, st.Fine)
	case "hexec":
		h, ok := w.handlers[st.H]
		if !ok {
			done = false
			break
		}
		if g := h.actor.pausedGate(); len(st.During) > 0 && g != nil && g.Op == "tx.Watch" {
			// The handler subscribes, and is slow to take the first event of its stream: the given reconciles run in
			// between (no event plumbing is awaited: the store may be blocked on the unread stream), then it reads.
			h.holdCh = make(chan struct{})
			done, err = h.Exec()
			if err == nil {
				time.Sleep(30 * time.Millisecond) // the store's watch goroutine has read the record it replays
				for _, d := range st.During {
					if _, derr := w.Deliver(d.C, w.cfgCtlKey(d.C, d.ID), false); derr != nil {
						err = derr
						break
					}
				}
			}
			close(h.holdCh)
			h.holdCh = nil
			break
		}
		done, err = h.Exec()
	case "run":
		done, err = w.Deliver(st.C, w.cfgCtlKey(st.C, st.ID), false)
	case "begin":
		done, err = w.Deliver(st.C, w.cfgCtlKey(st.C, st.ID), true)
	case "exec":
		done, err = w.Exec(st.A)
	case "crash":
		if w.proc == nil {
			done = false
			break
		}
		err = w.Crash()
	case "restart":
		if w.proc != nil {
			done = false
			break
		}
		err = w.Restart()
	case "connup":
		if w.proc == nil {
			done = false
			break
		}
		if _, exists := w.poolHas(st.Conn); exists {
			done = false
			break
		}
		if w.usedConn == nil {
			w.usedConn = map[string]bool{}
		}
		w.usedConn[st.Conn] = true
		err = w.ConnUp(st.T, st.Conn)
	case "conndown":
		if _, exists := w.poolHas(st.Conn); !exists {
			done = false
			break
		}
		w.ConnDown(st.Conn)
	case "heal":
		// epilogue: bring the process up and give every target without a live connection a fresh one;
		// every sub-action is a recorded step of its own
		if w.proc == nil {
			if err := w.Step(Step{K: "restart", Auto: true}); err != nil {
				return err
			}
		}
		for _, t := range w.opt.Targets {
			if len(w.pool.byTarget(t)) == 0 {
				w.healN++
				for w.usedConn[fmt.Sprintf("z%d", w.healN)] {
					w.healN++ // a connection id is never used twice (a replayed behaviour may contain healing steps)
				}
				if err := w.Step(Step{K: "connup", T: t, Conn: fmt.Sprintf("z%d", w.healN), Auto: true}); err != nil {
					return err
				}
			}
		}
		return nil
	case "devrestart":
		// a reboot loses the running configuration and breaks the device's connections
		w.devices[st.T].RestartEmpty()
		for _, id := range w.pool.byTarget(st.T) {
			w.ConnDown(id)
		}
	case "devfail":
		w.devices[st.T].FailNext(codes.Code(st.Code), st.Cnt)
	case "drain":
		max := st.Cnt
		if max <= 0 {
			max = 1500
		}
		spin, derr := w.DrainWith(max, st.Pol)
		if derr != nil {
			return derr
		}
		l, rerr := w.recordLine(st, true)
		if rerr != nil {
			return rerr
		}
		l.Spin = spin
		l.Overrun = w.overrun
		if w.overrun {
			l.Quiet = false
		}
		w.overrun = false
		return nil
	case "observe":
		return w.observe(st)
	case "probe":
		n, which, perr := w.Probe()
		if perr != nil {
			return perr
		}
		l, rerr := w.recordLine(st, true)
		if rerr != nil {
			return rerr
		}
		l.Probe = AProbe{N: n, Which: which}
		if l.Probe.Which == nil {
			l.Probe.Which = []string{}
		}
		return nil
	default:
		return fmt.Errorf("unknown step kind %q", st.K)
	}
	if err != nil {
		return err
	}
	return w.record(st, done)
}

func (w *World) poolHas(id string) (string, bool) {
	w.pool.mu.Lock()
	defer w.pool.mu.Unlock()
	c, ok := w.pool.conns[sb.ConnID(id)]
	if !ok {
		return "", false
	}
	return string(c.conn.TargetID()), true
}

func (w *World) record(st Step, done bool) error {
	_, err := w.recordLine(st, done)
	return err
}

func (w *World) recordLine(st Step, done bool) (*Line, error) {
	if err := w.settle(); err != nil {
		return nil, err
	}
	if w.Trace == nil {
		w.Trace = &Trace{}
	}
	if st.Ch == nil {
		st.Ch = map[string]map[string]string{}
	}
	st.During = nil // the recorded step names the handler; what ran meanwhile shows in the state
	l := Line{N: w.stepNo, Act: st, Done: done}
	w.stepNo++
	if err := w.snapshot(&l); err != nil {
		return nil, err
	}
	w.Trace.Lines = append(w.Trace.Lines, l)
	return &w.Trace.Lines[len(w.Trace.Lines)-1], nil
}

// observe issues real northbound Gets for every target and records them.
func (w *World) observe(st Step) error {
	l, err := w.recordLine(st, w.proc != nil)
	if err != nil {
		return err
	}
	l.Obs = w.proc != nil
	if w.proc == nil {
		return nil
	}
	for _, t := range w.opt.Targets {
		if _, ok := l.Cfgs[t]; !ok {
			l.Get[t] = map[string]string{}
			continue
		}
		m, err := w.GetAll(t, gnmi.Encoding_PROTO)
		if err != nil {
			return fmt.Errorf("infra: observation Get(%s): %v", t, err)
		}
		l.Get[t] = m
	}
	return nil
}
