package world

import (
	"context"
	"sort"
	"sync"

	topoapi "github.com/onosproject/onos-api/go/onos/topo"
	"github.com/onosproject/onos-config/pkg/store/topo"
	"github.com/onosproject/onos-lib-go/pkg/errors"
)

// fakeTopo is an in-memory stand-in for onos-topo (an external service: it survives crashes of
// onos-config). Watch replays existing objects (Noreplay=false in the real client) and then
// streams changes. Delivery to watchers is synchronous and in registration order, so no barrier
// beyond the per-watcher sentinel is needed.
type fakeTopo struct {
	mu       sync.Mutex
	objects  map[topoapi.ID]*topoapi.Object
	rev      uint64
	watchers map[int]*topoWatcher
	nextW    int
}

type topoWatcher struct {
	ch  chan<- topoapi.Event
	ctx context.Context
	q   chan topoapi.Event
}

func newFakeTopo() *fakeTopo {
	return &fakeTopo{objects: map[topoapi.ID]*topoapi.Object{}, watchers: map[int]*topoWatcher{}}
}

func cloneObj(o *topoapi.Object) *topoapi.Object {
	b, _ := o.Marshal()
	c := &topoapi.Object{}
	_ = c.Unmarshal(b)
	return c
}

func (t *fakeTopo) emit(typ topoapi.EventType, o *topoapi.Object) {
	for _, w := range t.watchers {
		w.q <- topoapi.Event{Type: typ, Object: *cloneObj(o)}
	}
}

func (t *fakeTopo) create(o *topoapi.Object) error {
	t.mu.Lock()
	defer t.mu.Unlock()
	if _, ok := t.objects[o.ID]; ok {
		return errors.NewAlreadyExists("object %s already exists", o.ID)
	}
	t.rev++
	c := cloneObj(o)
	c.Revision = topoapi.Revision(t.rev)
	t.objects[o.ID] = c
	t.emit(topoapi.EventType_ADDED, c)
	return nil
}

func (t *fakeTopo) delete(id topoapi.ID) error {
	t.mu.Lock()
	defer t.mu.Unlock()
	o, ok := t.objects[id]
	if !ok {
		return errors.NewNotFound("object %s not found", id)
	}
	delete(t.objects, id)
	t.emit(topoapi.EventType_REMOVED, o)
	return nil
}

func (t *fakeTopo) get(id topoapi.ID) (*topoapi.Object, error) {
	t.mu.Lock()
	defer t.mu.Unlock()
	o, ok := t.objects[id]
	if !ok {
		return nil, errors.NewNotFound("object %s not found", id)
	}
	return cloneObj(o), nil
}

func (t *fakeTopo) list(filters *topoapi.Filters) []topoapi.Object {
	t.mu.Lock()
	defer t.mu.Unlock()
	ids := make([]string, 0, len(t.objects))
	for id := range t.objects {
		ids = append(ids, string(id))
	}
	sort.Strings(ids)
	var out []topoapi.Object
	for _, id := range ids {
		o := t.objects[topoapi.ID(id)]
		if !matchFilters(o, filters) {
			continue
		}
		out = append(out, *cloneObj(o))
	}
	return out
}

func matchFilters(o *topoapi.Object, f *topoapi.Filters) bool {
	if f == nil {
		return true
	}
	if len(f.ObjectTypes) > 0 {
		ok := false
		for _, t := range f.ObjectTypes {
			if t == o.Type {
				ok = true
			}
		}
		if !ok {
			return false
		}
	}
	for _, a := range f.WithAspects {
		if o.Aspects == nil || o.Aspects[a] == nil {
			return false
		}
	}
	if rf := f.RelationFilter; rf != nil {
		// RELATIONS_ONLY scope as used by the mastership controller
		r := o.GetRelation()
		if r == nil {
			return false
		}
		if rf.RelationKind != "" && string(r.KindID) != rf.RelationKind {
			return false
		}
		if rf.SrcId != "" && string(r.SrcEntityID) != rf.SrcId {
			return false
		}
		if rf.TargetId != "" && string(r.TgtEntityID) != rf.TargetId {
			return false
		}
	}
	return true
}

// topoView is one actor's view of the topology service.
type topoView struct {
	t     *fakeTopo
	actor *Actor
	w     *World
	// for watcher views: where sentinels are injected
	isWatcher bool
}

func (v *topoView) Create(ctx context.Context, object *topoapi.Object) error {
	if err := v.actor.gate("topo.Create", string(object.ID)); err != nil {
		return err
	}
	return v.t.create(object)
}

func (v *topoView) Update(ctx context.Context, object *topoapi.Object) error {
	return errors.NewNotSupported("verif: topo update not modelled")
}

func (v *topoView) Get(ctx context.Context, id topoapi.ID) (*topoapi.Object, error) {
	if err := v.actor.readGuard(); err != nil {
		return nil, err
	}
	return v.t.get(id)
}

func (v *topoView) List(ctx context.Context, filters *topoapi.Filters) ([]topoapi.Object, error) {
	if err := v.actor.readGuard(); err != nil {
		return nil, err
	}
	return v.t.list(filters), nil
}

func (v *topoView) Delete(ctx context.Context, object *topoapi.Object) error {
	if err := v.actor.gate("topo.Delete", string(object.ID)); err != nil {
		return err
	}
	return v.t.delete(object.ID)
}

func (v *topoView) Watch(ctx context.Context, ch chan<- topoapi.Event, filters *topoapi.Filters) error {
	if err := v.actor.readGuard(); err != nil {
		return err
	}
	t := v.t
	t.mu.Lock()
	id := t.nextW
	t.nextW++
	tw := &topoWatcher{ch: ch, ctx: ctx, q: make(chan topoapi.Event, 4096)}
	// replay
	ids := make([]string, 0, len(t.objects))
	for oid := range t.objects {
		ids = append(ids, string(oid))
	}
	sort.Strings(ids)
	for _, oid := range ids {
		tw.q <- topoapi.Event{Type: topoapi.EventType_NONE, Object: *cloneObj(t.objects[topoapi.ID(oid)])}
	}
	t.watchers[id] = tw
	t.mu.Unlock()
	v.w.registerTopoWatcher(tw)
	go func() {
		defer func() {
			t.mu.Lock()
			delete(t.watchers, id)
			t.mu.Unlock()
			v.w.dropTopoWatcher(tw)
			close(ch)
		}()
		for {
			select {
			case ev := <-tw.q:
				select {
				case ch <- ev:
				case <-ctx.Done():
					return
				}
			case <-ctx.Done():
				return
			}
		}
	}()
	return nil
}

var _ topo.Store = &topoView{}

// sentinel events understood by every topo watcher of the controllers under test: an entity
// with a Configurable aspect (configuration, mastership, target watchers) and a CONTROLS
// relation from this node (connection watcher).
func topoSentinels(n int, nodeID topoapi.ID) []topoapi.Event {
	ent := &topoapi.Object{
		ID:   topoapi.ID(barrierName(n)),
		Type: topoapi.Object_ENTITY,
		Obj:  &topoapi.Object_Entity{Entity: &topoapi.Entity{KindID: "verif-barrier"}},
	}
	_ = ent.SetAspect(&topoapi.Configurable{Type: "b", Version: "b"})
	rel := &topoapi.Object{
		ID:   topoapi.ID(barrierName(n)),
		Type: topoapi.Object_RELATION,
		Obj: &topoapi.Object_Relation{Relation: &topoapi.Relation{
			KindID: topoapi.CONTROLS, SrcEntityID: nodeID, TgtEntityID: topoapi.ID(barrierName(n))}},
	}
	return []topoapi.Event{{Type: topoapi.EventType_UPDATED, Object: *ent}, {Type: topoapi.EventType_UPDATED, Object: *rel}}
}
