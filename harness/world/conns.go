package world

import (
	"context"
	"sort"
	"sync"

	topoapi "github.com/onosproject/onos-api/go/onos/topo"
	sb "github.com/onosproject/onos-config/pkg/southbound/gnmi"
	"github.com/onosproject/onos-lib-go/pkg/errors"
	baseClient "github.com/openconfig/gnmi/client"
	gclient "github.com/openconfig/gnmi/client/gnmi"
	gpb "github.com/openconfig/gnmi/proto/gnmi"
	"google.golang.org/grpc"
	"google.golang.org/grpc/status"
)

// connPool is the simulated ConnManager state: which connections exist is decided by the
// environment (scenario steps), the Conn objects themselves are the production client/conn
// types over an in-memory gRPC connection to the simulated device.
type connPool struct {
	mu       sync.Mutex
	conns    map[sb.ConnID]*liveConn
	watchers map[int]*connWatcher
	nextW    int
	seq      int
}

type liveConn struct {
	conn sb.Conn
	cc   *grpc.ClientConn
	seq  int // order of creation
}

type connWatcher struct {
	ch chan<- sb.Conn
	q  chan sb.Conn
}

func newConnPool() *connPool {
	return &connPool{conns: map[sb.ConnID]*liveConn{}, watchers: map[int]*connWatcher{}}
}

func (p *connPool) add(w *World, id string, d *Device) error {
	cc, err := d.dial(context.Background(), id)
	if err != nil {
		return err
	}
	gc, err := gclient.NewFromConn(context.Background(), cc, baseClient.Destination{Target: d.Target})
	if err != nil {
		return err
	}
	c := sb.NewConnForVerif(sb.ConnID(id), topoapi.ID(d.Target), gc)
	p.mu.Lock()
	p.seq++
	p.conns[sb.ConnID(id)] = &liveConn{conn: c, cc: cc, seq: p.seq}
	for _, cw := range p.watchers {
		cw.q <- c
	}
	p.mu.Unlock()
	return nil
}

func (p *connPool) remove(id string) {
	p.mu.Lock()
	lc, ok := p.conns[sb.ConnID(id)]
	if ok {
		delete(p.conns, sb.ConnID(id))
		for _, cw := range p.watchers {
			cw.q <- lc.conn
		}
	}
	p.mu.Unlock()
	if ok {
		_ = lc.cc.Close()
	}
}

func (p *connPool) ids() []string {
	p.mu.Lock()
	defer p.mu.Unlock()
	out := make([]string, 0, len(p.conns))
	for id := range p.conns {
		out = append(out, string(id))
	}
	sort.Strings(out)
	return out
}

func (p *connPool) byTarget(t string) []string {
	p.mu.Lock()
	defer p.mu.Unlock()
	var out []string
	for id, c := range p.conns {
		if string(c.conn.TargetID()) == t {
			out = append(out, string(id))
		}
	}
	sort.Strings(out)
	return out
}

// connView is one actor's view of the ConnManager.
type connView struct {
	p     *connPool
	actor *Actor
	w     *World
}

func (v *connView) Get(ctx context.Context, connID sb.ConnID) (sb.Conn, bool) {
	if v.actor.readGuard() != nil {
		return nil, false
	}
	v.p.mu.Lock()
	lc, ok := v.p.conns[connID]
	v.p.mu.Unlock()
	if !ok {
		return nil, false
	}
	return &gatedConn{Conn: lc.conn, actor: v.actor, w: v.w}, true
}

func (v *connView) GetByTarget(ctx context.Context, targetID topoapi.ID) (sb.Client, error) {
	if err := v.actor.readGuard(); err != nil {
		return nil, err
	}
	v.p.mu.Lock()
	defer v.p.mu.Unlock()
	// the real connection manager keeps one client per target, wrapped in a new Conn whenever its channel becomes
	// ready again: "the client of the target" is whatever connection is up, i.e. the latest one
	var best *liveConn
	for _, c := range v.p.conns {
		if c.conn.TargetID() == targetID && (best == nil || c.seq > best.seq) {
			best = c
		}
	}
	if best == nil {
		return nil, errors.NewNotFound("no connection to target %s", targetID)
	}
	return &gatedConn{Conn: best.conn, actor: v.actor, w: v.w}, nil
}

func (v *connView) Connect(ctx context.Context, target *topoapi.Object) error {
	return errors.NewNotSupported("verif: connections are established by the environment")
}

func (v *connView) Disconnect(ctx context.Context, targetID topoapi.ID) error {
	return errors.NewNotSupported("verif: connections are removed by the environment")
}

func (v *connView) Watch(ctx context.Context, ch chan<- sb.Conn) error {
	if err := v.actor.readGuard(); err != nil {
		return err
	}
	p := v.p
	p.mu.Lock()
	id := p.nextW
	p.nextW++
	cw := &connWatcher{ch: ch, q: make(chan sb.Conn, 4096)}
	// the real manager replays existing connections to a new watcher
	ids := make([]string, 0, len(p.conns))
	for cid := range p.conns {
		ids = append(ids, string(cid))
	}
	sort.Strings(ids)
	for _, cid := range ids {
		cw.q <- p.conns[sb.ConnID(cid)].conn
	}
	p.watchers[id] = cw
	p.mu.Unlock()
	v.w.registerConnWatcher(cw)
	go func() {
		defer func() {
			p.mu.Lock()
			delete(p.watchers, id)
			p.mu.Unlock()
			v.w.dropConnWatcher(cw)
			close(ch)
		}()
		for {
			select {
			case c := <-cw.q:
				select {
				case ch <- c:
				case <-ctx.Done():
					return
				}
			case <-ctx.Done():
				return
			}
		}
	}()
	return nil
}

var _ sb.ConnManager = &connView{}

// gatedConn is the production Conn with the actor's gate in front of Set.
type gatedConn struct {
	sb.Conn
	actor *Actor
	w     *World
}

func (c *gatedConn) Set(ctx context.Context, r *gpb.SetRequest) (*gpb.SetResponse, error) {
	if err := c.actor.gate("dev.Set", string(c.TargetID())); err != nil {
		return nil, err
	}
	resp, err := c.Conn.Set(ctx, r)
	c.w.noteDevSet(c.actor, string(c.TargetID()), err)
	return resp, err
}

// sentinelConn is a Conn object only used as an in-memory barrier marker for ConnWatchers.
type sentinelConn struct {
	sb.Conn
	id string
}

func (s *sentinelConn) ID() sb.ConnID        { return sb.ConnID(s.id) }
func (s *sentinelConn) TargetID() topoapi.ID { return topoapi.ID(s.id) }

// grpcCode extracts the gRPC code of a raw (unwrapped) gRPC error.
func grpcCode(err error) int {
	if err == nil {
		return 0
	}
	return int(status.Code(err))
}
