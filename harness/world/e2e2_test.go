package world

import (
	"fmt"
	"testing"
)

func last(tr *Trace) Line { return tr.Lines[len(tr.Lines)-1] }

func runPrint(t *testing.T, s Scenario, all bool) *Trace {
	tr, err := RunScenario(s)
	if tr != nil {
		for i, l := range tr.Lines {
			if all || i == len(tr.Lines)-1 || l.Act.K == "observe" || l.Act.K == "probe" || (!l.Act.Auto) {
				fmt.Println(summarize(l))
			}
		}
	}
	if err != nil {
		t.Fatal(err)
	}
	return tr
}

func ch1(t string, kv ...string) map[string]map[string]string {
	m := map[string]string{}
	for i := 0; i+1 < len(kv); i += 2 {
		m[kv[i]] = kv[i+1]
	}
	return map[string]map[string]string{t: m}
}

func TestInvalidMiddle(t *testing.T) {
	runPrint(t, Scenario{Targets: []string{"t1"}, Seed: 3, Steps: []Step{
		{K: "connup", T: "t1", Conn: "c1"}, {K: "drain"},
		{K: "set", H: "h1", Ch: ch1("t1", "/a/b", "v1")},
		{K: "set", H: "h2", Ch: ch1("t1", "/a/c", "INVALID")},
		{K: "set", H: "h3", Ch: ch1("t1", "/ab", "v3")},
		{K: "drain"}, {K: "observe"}, {K: "probe"},
	}}, false)
}

func TestDeviceReject(t *testing.T) {
	runPrint(t, Scenario{Targets: []string{"t1"}, Seed: 3, Steps: []Step{
		{K: "connup", T: "t1", Conn: "c1"}, {K: "drain"},
		{K: "set", H: "h1", Sync: true, Ch: ch1("t1", "/a/b", "REJECT-3")},
		{K: "set", H: "h2", Sync: true, Ch: ch1("t1", "/a/c", "v2")},
		{K: "drain"}, {K: "observe"}, {K: "probe"},
	}}, false)
}

func TestDeviceUnavailable(t *testing.T) {
	runPrint(t, Scenario{Targets: []string{"t1"}, Seed: 3, Steps: []Step{
		{K: "connup", T: "t1", Conn: "c1"}, {K: "drain"},
		{K: "devfail", T: "t1", Code: 14, Cnt: 2},
		{K: "set", H: "h1", Sync: true, Ch: ch1("t1", "/a/b", "v1")},
		{K: "drain"}, {K: "observe"}, {K: "probe"},
	}}, false)
}

func TestRollback(t *testing.T) {
	runPrint(t, Scenario{Targets: []string{"t1"}, Seed: 3, Steps: []Step{
		{K: "connup", T: "t1", Conn: "c1"}, {K: "drain"},
		{K: "set", H: "h1", Sync: true, Ch: ch1("t1", "/a/b", "v1", "/a/c", "v2")},
		{K: "drain"},
		{K: "set", H: "h2", Sync: true, Ch: ch1("t1", "/a", "DEL")},
		{K: "drain"}, {K: "observe"},
		{K: "rollback", H: "h3", Idx: 2},
		{K: "drain"}, {K: "observe"}, {K: "probe"},
	}}, false)
}

func TestCrashFine(t *testing.T) {
	runPrint(t, Scenario{Targets: []string{"t1"}, Seed: 3, Steps: []Step{
		{K: "connup", T: "t1", Conn: "c1"}, {K: "drain"},
		{K: "set", H: "h1", Ch: ch1("t1", "/a/b", "v1")},
		{K: "run", C: "tx", ID: "1"},
		{K: "begin", C: "tx", ID: "1"},
		{K: "exec", A: "tx"},
		{K: "crash"},
		{K: "restart"},
		{K: "connup", T: "t1", Conn: "c2"},
		{K: "drain"}, {K: "observe"}, {K: "probe"},
	}}, false)
}
