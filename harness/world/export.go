package world

import "github.com/openconfig/gnmi/proto/gnmi"

// StrToPath parses a textual path of the simulated schema into a gNMI path (no target).
func StrToPath(p string) *gnmi.Path { return strToPath(p) }
