package world

import (
	"bufio"
	"context"
	"encoding/json"
	"fmt"
	"os"
	"sort"

	configapi "github.com/onosproject/onos-api/go/onos/config/v2"
	topoapi "github.com/onosproject/onos-api/go/onos/topo"
)

// ---------------------------------------------------------------------------------------------
// The projection of the real records onto the abstract state of spec/v2/OnosV2.tla.
// Field names are the TLA+ record field names.
// ---------------------------------------------------------------------------------------------

// Phase encoding: "N" not started (nil), "I" in progress, "D" done, "F" failed.
type APhases struct {
	Init string `json:"init"`
	Val  string `json:"val"`
	Com  string `json:"com"`
	App  string `json:"app"`
	Abt  string `json:"abt"`
}

type ATx struct {
	I     int                          `json:"i"`
	Kind  string                       `json:"kind"` // change | rollback
	Rb    int                          `json:"rb"`   // rollback index (0 for changes)
	Sync  bool                         `json:"sync"`
	Ser   bool                         `json:"ser"`
	Ch    map[string]map[string]string `json:"ch"` // target -> path -> value | DEL
	State string                       `json:"state"`
	Ph    APhases                      `json:"ph"`
	Props []string                     `json:"props"`
	Fail  string                       `json:"fail"` // failure class or "-"
	Ver   int                          `json:"ver"`
}

type AVal struct {
	V string `json:"v"`
	D bool   `json:"d"`
	I int    `json:"i"`
}

type AProp struct {
	T      string            `json:"t"`
	I      int               `json:"i"`
	Kind   string            `json:"kind"`
	Rb     int               `json:"rb"`
	Ch     map[string]string `json:"ch"`
	Ph     APhases           `json:"ph"`
	Prev   int               `json:"prev"`
	Next   int               `json:"next"`
	RbIdx  int               `json:"rbidx"`
	RbVals map[string]AVal   `json:"rbvals"`
	Fail   string            `json:"fail"`
	Term   int               `json:"term"`
	Ver    int               `json:"ver"`
}

type ACfg struct {
	Index     int             `json:"index"`
	Proposed  int             `json:"proposed"`
	Committed int             `json:"committed"`
	Applied   int             `json:"applied"`
	State     string          `json:"state"`
	Master    string          `json:"master"`
	Term      int             `json:"term"`
	AMaster   string          `json:"amaster"`
	ATerm     int             `json:"aterm"`
	Values    map[string]AVal `json:"values"`
	AValues   map[string]AVal `json:"avalues"`
	Ver       int             `json:"ver"`
}

type ADev struct {
	Vals   map[string]string `json:"vals"`
	Boot   int               `json:"boot"`
	MaxEID int               `json:"maxeid"`
	FailQ  []int             `json:"failq"`
}

type ADevReq struct {
	DevReq
	Ctl string `json:"ctl"` // issuing controller: prop (apply) | cfg (sync)
	ID  string `json:"id"`  // issuing reconcile id
}

type APlug struct {
	ID     string            `json:"id"` // validating proposal
	Leaves map[string]string `json:"leaves"`
	Valid  bool              `json:"valid"`
	Chunks []int             `json:"chunks"`
	Size   int               `json:"size"`
}

type AHandler struct {
	Kind    string                       `json:"kind"`
	Sync    bool                         `json:"sync"`
	Rb      int                          `json:"rb"`
	Ch      map[string]map[string]string `json:"ch"`
	St      string                       `json:"st"` // new | created | waiting | done | lost
	Tx      int                          `json:"tx"` // index of the transaction it created (0 = none yet)
	OK      bool                         `json:"ok"`
	Code    int                          `json:"code"`
	RespIdx int                          `json:"ridx"`
	RespOwn bool                         `json:"rown"` // response id equals the id of the created transaction
	Results []AResult                    `json:"results"`
}

type AProbe struct {
	N     int      `json:"n"`
	Which []string `json:"which"`
}

// Line is one trace line: the step taken and the complete abstract state after it.
type Line struct {
	N       int                          `json:"n"`
	Act     Step                         `json:"act"`
	Done    bool                         `json:"done"` // was the step executed (false: skipped hint)
	Up      bool                         `json:"up"`
	Txs     []ATx                        `json:"txs"`
	Props   map[string]AProp             `json:"props"`
	Cfgs    map[string]ACfg              `json:"cfgs"`
	Rels    map[string]string            `json:"rels"`  // CONTROLS relation id -> target
	Conns   map[string]string            `json:"conns"` // live connection id -> target
	Dev     map[string]ADev              `json:"dev"`
	Q       map[string][]string          `json:"q"`
	Paused  map[string]Gate              `json:"paused"`
	Busy    []string                     `json:"busy"` // controller actors with a reconcile in flight (fine mode)
	H       map[string]AHandler          `json:"h"`
	DevLog  []ADevReq                    `json:"devlog"`
	Merges  []MergeRec                   `json:"merges"`
	Plug    []APlug                      `json:"plug"`
	Effects []Gate                       `json:"effects"`
	Obs     bool                         `json:"obs"`
	Get     map[string]map[string]string `json:"get"`
	Quiet   bool                         `json:"quiet"`
	Spin    bool                         `json:"spin"`
	Overrun bool                         `json:"overrun"` // the drain was cut after its step budget: the controllers never came to rest
	Probe   AProbe                       `json:"probe"`
}

// Trace accumulates lines.
type Trace struct {
	Lines []Line
}

func (t *Trace) WriteNDJSON(path string) error {
	f, err := os.Create(path)
	if err != nil {
		return err
	}
	defer f.Close()
	bw := bufio.NewWriter(f)
	enc := json.NewEncoder(bw)
	for i := range t.Lines {
		if err := enc.Encode(&t.Lines[i]); err != nil {
			return err
		}
	}
	return bw.Flush()
}

func phase(isNil bool, st int32) string {
	if isNil {
		return "N"
	}
	switch st {
	case 0:
		return "I"
	case 1:
		return "D"
	default:
		return "F"
	}
}

func failName(f *configapi.Failure) string {
	if f == nil {
		return "-"
	}
	return f.Type.String()
}

func valText(pv *configapi.PathValue) string {
	if pv == nil {
		return "<nil>"
	}
	if pv.Deleted {
		return DelValue
	}
	return NativeToStr(&pv.Value)
}

// NativeToStr renders a stored typed value as the token used in abstract states.
func NativeToStr(v *configapi.TypedValue) (out string) {
	defer func() {
		// the renderer of the API package itself fails on some stored values (decimal64 precision >= 64)
		if r := recover(); r != nil {
			out = fmt.Sprintf("%s:<unprintable %x>", v.Type, v.Bytes)
		}
	}()
	switch v.Type {
	case configapi.ValueType_STRING:
		return string(v.Bytes)
	case configapi.ValueType_EMPTY:
		return ""
	default:
		return v.Type.String() + ":" + v.ValueToString()
	}
}

func avals(m map[string]*configapi.PathValue) map[string]AVal {
	out := map[string]AVal{}
	for p, pv := range m {
		out[p] = AVal{V: valTextNoDel(pv), D: pv.Deleted, I: int(pv.Index)}
	}
	return out
}

func valTextNoDel(pv *configapi.PathValue) string {
	if pv.Deleted {
		return ""
	}
	return NativeToStr(&pv.Value)
}

func (w *World) ver(kind, key string) int {
	w.mu.Lock()
	defer w.mu.Unlock()
	return w.verOrd[kind+"/"+key]
}

func projTx(w *World, t *configapi.Transaction) ATx {
	a := ATx{I: int(t.Index), Ch: map[string]map[string]string{}, Props: []string{}}
	a.Sync = t.TransactionStrategy.Synchronicity == configapi.TransactionStrategy_SYNCHRONOUS
	a.Ser = t.TransactionStrategy.Isolation == configapi.TransactionStrategy_SERIALIZABLE
	switch d := t.Details.(type) {
	case *configapi.Transaction_Change:
		a.Kind = "change"
		for tgt, pvs := range d.Change.Values {
			m := map[string]string{}
			for p, pv := range pvs.Values {
				m[p] = valText(pv)
			}
			a.Ch[string(tgt)] = m
		}
	case *configapi.Transaction_Rollback:
		a.Kind = "rollback"
		a.Rb = int(d.Rollback.RollbackIndex)
	}
	a.State = t.Status.State.String()
	ph := t.Status.Phases
	a.Ph = APhases{
		Init: phase(ph.Initialize == nil, int32(ph.Initialize.GetState())),
		Val:  phase(ph.Validate == nil, int32(ph.Validate.GetState())),
		Com:  phase(ph.Commit == nil, int32(ph.Commit.GetState())),
		App:  phase(ph.Apply == nil, int32(ph.Apply.GetState())),
		Abt:  phase(ph.Abort == nil, int32(ph.Abort.GetState())),
	}
	for _, p := range t.Status.Proposals {
		a.Props = append(a.Props, string(p))
	}
	sort.Strings(a.Props)
	a.Fail = failName(t.Status.Failure)
	a.Ver = w.ver("tx", string(t.ID))
	return a
}

func projProp(w *World, p *configapi.Proposal) AProp {
	a := AProp{T: string(p.TargetID), I: int(p.TransactionIndex), Ch: map[string]string{}, RbVals: avals(p.Status.RollbackValues)}
	switch d := p.Details.(type) {
	case *configapi.Proposal_Change:
		a.Kind = "change"
		for path, pv := range d.Change.Values {
			a.Ch[path] = valText(pv)
		}
	case *configapi.Proposal_Rollback:
		a.Kind = "rollback"
		a.Rb = int(d.Rollback.RollbackIndex)
	}
	ph := p.Status.Phases
	a.Ph = APhases{
		Init: phase(ph.Initialize == nil, int32(ph.Initialize.GetState())),
		Val:  phase(ph.Validate == nil, int32(ph.Validate.GetState())),
		Com:  phase(ph.Commit == nil, int32(ph.Commit.GetState())),
		App:  phase(ph.Apply == nil, int32(ph.Apply.GetState())),
		Abt:  phase(ph.Abort == nil, int32(ph.Abort.GetState())),
	}
	a.Prev, a.Next, a.RbIdx = int(p.Status.PrevIndex), int(p.Status.NextIndex), int(p.Status.RollbackIndex)
	a.Fail = "-"
	if ph.Validate != nil && ph.Validate.Failure != nil {
		a.Fail = failName(ph.Validate.Failure)
	}
	if ph.Apply != nil && ph.Apply.Failure != nil {
		a.Fail = failName(ph.Apply.Failure)
	}
	if ph.Apply != nil {
		a.Term = int(ph.Apply.Term)
	}
	a.Ver = w.ver("prop", string(p.ID))
	return a
}

func projCfg(w *World, c *configapi.Configuration) ACfg {
	return ACfg{
		Index: int(c.Index), Proposed: int(c.Status.Proposed.Index), Committed: int(c.Status.Committed.Index),
		Applied: int(c.Status.Applied.Index), State: c.Status.State.String(),
		Master: c.Status.Mastership.Master, Term: int(c.Status.Mastership.Term),
		AMaster: c.Status.Applied.Mastership.Master, ATerm: int(c.Status.Applied.Mastership.Term),
		Values: avals(c.Values), AValues: avals(c.Status.Applied.Values), Ver: w.ver("cfg", string(c.ID)),
	}
}

// snapshot reads the complete abstract state from the real stores (bypassing the views).
func (w *World) snapshot(l *Line) error {
	ctx := context.Background()
	l.Txs = []ATx{}
	l.Props = map[string]AProp{}
	l.Cfgs = map[string]ACfg{}
	l.Rels = map[string]string{}
	l.Conns = map[string]string{}
	l.Dev = map[string]ADev{}
	l.Q = map[string][]string{}
	l.Paused = map[string]Gate{}
	l.Busy = []string{}
	l.H = map[string]AHandler{}
	l.Up = w.proc != nil

	// persistent records: read through the current process' raw stores, or through a
	// throw-away store when the process is down
	tx, prop, cfg := w.rawStores()
	if tx != nil {
		txs, err := tx.List(ctx)
		if err != nil {
			return fmt.Errorf("infra: snapshot tx list: %v", err)
		}
		sort.Slice(txs, func(i, j int) bool { return txs[i].Index < txs[j].Index })
		for _, t := range txs {
			l.Txs = append(l.Txs, projTx(w, t))
		}
		props, err := prop.List(ctx)
		if err != nil {
			return fmt.Errorf("infra: snapshot proposal list: %v", err)
		}
		for _, p := range props {
			l.Props[string(p.ID)] = projProp(w, p)
		}
		cfgs, err := cfg.List(ctx)
		if err != nil {
			return fmt.Errorf("infra: snapshot configuration list: %v", err)
		}
		for _, c := range cfgs {
			l.Cfgs[string(c.TargetID)] = projCfg(w, c)
		}
	}
	for _, o := range w.topo.list(nil) {
		if r := o.GetRelation(); r != nil && r.KindID == topoapi.CONTROLS {
			l.Rels[string(o.ID)] = string(r.TgtEntityID)
		}
	}
	for _, id := range w.pool.ids() {
		w.pool.mu.Lock()
		l.Conns[id] = string(w.pool.conns[ConnIDOf(id)].conn.TargetID())
		w.pool.mu.Unlock()
	}
	for t, d := range w.devices {
		vals, boot := d.Snapshot()
		maxeid, fq := d.arbState()
		l.Dev[t] = ADev{Vals: vals, Boot: boot, MaxEID: maxeid, FailQ: fq}
	}
	if w.proc != nil {
		for _, cn := range w.proc.cord {
			ks := w.proc.ctls[cn].keys()
			sort.Strings(ks)
			if cn == "cfg" || cn == "mast" {
				for i, k := range ks {
					ks[i] = w.targetOfCfgID(k)
				}
			}
			l.Q[cn] = ks
		}
		for n, a := range w.proc.actors {
			if g := a.pausedGate(); g != nil {
				l.Paused[n] = *g
				l.Busy = append(l.Busy, n)
			}
		}
		sort.Strings(l.Busy)
	} else {
		for _, cn := range []string{"tx", "prop", "cfg", "mast", "conn"} {
			l.Q[cn] = []string{}
		}
	}
	for _, hn := range w.hOrder {
		h := w.handlers[hn]
		h.mu.Lock()
		ah := AHandler{Kind: h.Kind, Sync: h.Sync, Rb: h.RbIndex, Ch: h.Change, Tx: h.txIndex, OK: h.OK, Code: h.Code,
			RespIdx: h.RespIdx, RespOwn: h.RespID != "" && h.RespID == h.txID, Results: h.Results}
		switch {
		case h.lost:
			// the client saw its connection die: whatever the unwinding handler goroutine computed is not an answer
			ah.St = "lost"
			ah.OK, ah.Code, ah.RespIdx, ah.RespOwn, ah.Results = false, 0, 0, false, nil
		case h.fin:
			ah.St = "done"
		case h.watching:
			ah.St = "waiting"
		case h.txID != "":
			ah.St = "created"
		default:
			ah.St = "new"
		}
		h.mu.Unlock()
		if ah.Ch == nil {
			ah.Ch = map[string]map[string]string{}
		}
		if ah.Results == nil {
			ah.Results = []AResult{}
		}
		if g := h.actor.pausedGate(); g != nil {
			l.Paused["h:"+hn] = *g
		}
		l.H[hn] = ah
	}

	// per-step observation buffers
	w.mu.Lock()
	l.Effects = w.stepEffects
	l.Merges = w.stepMerges
	tags := w.stepDevTags
	w.stepEffects, w.stepMerges, w.stepDevTags = nil, nil, nil
	w.mu.Unlock()
	if l.Effects == nil {
		l.Effects = []Gate{}
	}
	if l.Merges == nil {
		l.Merges = []MergeRec{}
	}
	l.DevLog = []ADevReq{}
	// device requests, in issue order (one actor runs at a time, so tags and device logs line up per target)
	perT := map[string][]DevReq{}
	for t, d := range w.devices {
		perT[t] = d.takeLog()
	}
	for _, tg := range tags {
		if len(perT[tg.T]) == 0 {
			continue // the request never reached the device (connection closed)
		}
		r := perT[tg.T][0]
		perT[tg.T] = perT[tg.T][1:]
		l.DevLog = append(l.DevLog, ADevReq{DevReq: r, Ctl: tg.Ctl, ID: tg.ID})
	}
	l.Plug = []APlug{}
	for _, c := range w.plugin.takeCalls() {
		l.Plug = append(l.Plug, APlug{ID: l.Act.ID, Leaves: c.Leaves, Valid: c.Valid, Chunks: c.Chunks, Size: len(c.Raw)})
	}
	if l.Get == nil {
		l.Get = map[string]map[string]string{}
	}
	if l.Probe.Which == nil {
		l.Probe.Which = []string{}
	}
	l.Quiet = w.Quiescent()
	return nil
}
