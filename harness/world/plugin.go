package world

import (
	"context"
	"encoding/json"
	"fmt"
	"sort"
	"strings"
	"sync"

	api "github.com/onosproject/onos-api/go/onos/config/admin"
	configapi "github.com/onosproject/onos-api/go/onos/config/v2"
	"github.com/onosproject/onos-config/pkg/pluginregistry"
	"github.com/openconfig/gnmi/proto/gnmi"
	"google.golang.org/grpc"
	"google.golang.org/grpc/metadata"
)

// InvalidValue is the reserved leaf value the simulated model rejects.
const InvalidValue = "INVALID"

// ModelType / ModelVersion of the simulated plugin.
const (
	ModelType    = "vmodel"
	ModelVersion = "1.0.0"
)

// PluginCall is one validation request as the plugin saw it (after reassembling the chunks).
type PluginCall struct {
	Chunks []int             `json:"chunks"` // chunk sizes
	Leaves map[string]string `json:"leaves"` // flattened document
	Valid  bool              `json:"valid"`
	Raw    []byte            `json:"-"`
}

// SchemaPath declares one read-write leaf of the simulated model.
type SchemaPath struct {
	Path     string
	Type     configapi.ValueType
	TypeOpts []uint64
	IsKey    bool
	Attr     string
}

// DefaultSchema is the path universe of spec/data/ConfigData.tla plus the key leaves.
func DefaultSchema() []SchemaPath {
	s := func(p string) SchemaPath { return SchemaPath{Path: p, Type: configapi.ValueType_STRING} }
	k := func(p, attr string) SchemaPath {
		return SchemaPath{Path: p, Type: configapi.ValueType_STRING, IsKey: true, Attr: attr}
	}
	return []SchemaPath{
		s("/a/b"), s("/a/c"), s("/a/e/d"), s("/ab"),
		k("/l[k=*]/k", "k"), s("/l[k=*]/x"), s("/l[k=*]/y"),
		// textual paths carry list keys in alphabetical order of the key names
		k("/m[j=*][k=*]/j", "j"), k("/m[j=*][k=*]/k", "k"), s("/m[j=*][k=*]/x"),
	}
}

// fakePlugin implements the model-plugin gRPC client interface in-process, so that the real
// registry code (model info loading, chunked validation) runs unchanged.
type fakePlugin struct {
	mu     sync.Mutex
	schema []SchemaPath
	name   string
	ver    string
	calls  []PluginCall
	// padding added by the world to force documents across the chunk boundary is invisible
	// here: the plugin just parses whatever JSON it receives.
}

func newFakePlugin(schema []SchemaPath) *fakePlugin {
	return &fakePlugin{schema: schema, name: ModelType, ver: ModelVersion}
}

func (p *fakePlugin) takeCalls() []PluginCall {
	p.mu.Lock()
	defer p.mu.Unlock()
	c := p.calls
	p.calls = nil
	return c
}

func (p *fakePlugin) GetModelInfo(ctx context.Context, in *api.ModelInfoRequest, opts ...grpc.CallOption) (*api.ModelInfoResponse, error) {
	info := &api.ModelInfo{Name: p.name, Version: p.ver,
		ModelData:          []*gnmi.ModelData{{Name: "vmodel", Organization: "verif", Version: "2022-01-01"}},
		SupportedEncodings: []gnmi.Encoding{gnmi.Encoding_JSON_IETF, gnmi.Encoding_PROTO},
	}
	for _, sp := range p.schema {
		info.ReadWritePath = append(info.ReadWritePath, &api.ReadWritePath{
			Path: sp.Path, ValueType: sp.Type, TypeOpts: sp.TypeOpts, IsAKey: sp.IsKey, AttrName: sp.Attr})
	}
	return &api.ModelInfoResponse{ModelInfo: info}, nil
}

func (p *fakePlugin) validate(raw []byte, chunks []int) *api.ValidateConfigResponse {
	leaves, err := FlattenJSON(raw)
	call := PluginCall{Chunks: chunks, Leaves: leaves, Raw: raw, Valid: err == nil}
	msg := ""
	if err != nil {
		msg = err.Error()
	}
	for _, v := range leaves {
		if v == InvalidValue {
			call.Valid = false
			msg = "reserved value INVALID"
		}
	}
	p.mu.Lock()
	p.calls = append(p.calls, call)
	p.mu.Unlock()
	return &api.ValidateConfigResponse{Valid: call.Valid, Message: msg}
}

func (p *fakePlugin) ValidateConfig(ctx context.Context, in *api.ValidateConfigRequest, opts ...grpc.CallOption) (*api.ValidateConfigResponse, error) {
	return p.validate(in.Json, []int{len(in.Json)}), nil
}

type chunkStream struct {
	p      *fakePlugin
	ctx    context.Context
	buf    []byte
	chunks []int
}

func (s *chunkStream) Send(c *api.ValidateConfigRequestChunk) error {
	s.buf = append(s.buf, c.Json...)
	s.chunks = append(s.chunks, len(c.Json))
	return nil
}
func (s *chunkStream) CloseAndRecv() (*api.ValidateConfigResponse, error) {
	return s.p.validate(s.buf, s.chunks), nil
}
func (s *chunkStream) Header() (metadata.MD, error) { return nil, nil }
func (s *chunkStream) Trailer() metadata.MD         { return nil }
func (s *chunkStream) CloseSend() error             { return nil }
func (s *chunkStream) Context() context.Context     { return s.ctx }
func (s *chunkStream) SendMsg(m interface{}) error  { return nil }
func (s *chunkStream) RecvMsg(m interface{}) error  { return nil }

func (p *fakePlugin) ValidateConfigChunked(ctx context.Context, opts ...grpc.CallOption) (api.ModelPluginService_ValidateConfigChunkedClient, error) {
	return &chunkStream{p: p, ctx: ctx}, nil
}

func (p *fakePlugin) GetPathValues(ctx context.Context, in *api.PathValuesRequest, opts ...grpc.CallOption) (*api.PathValuesResponse, error) {
	leaves, err := FlattenJSON(in.Json)
	if err != nil {
		return nil, err
	}
	resp := &api.PathValuesResponse{}
	paths := make([]string, 0, len(leaves))
	for k := range leaves {
		paths = append(paths, k)
	}
	sort.Strings(paths)
	prefix := in.PathPrefix
	if prefix == "/" {
		prefix = ""
	}
	for _, k := range paths {
		resp.PathValues = append(resp.PathValues, &configapi.PathValue{Path: prefix + k,
			Value: configapi.TypedValue{Bytes: []byte(leaves[k]), Type: configapi.ValueType_STRING}})
	}
	return resp, nil
}

func (p *fakePlugin) GetValueSelection(ctx context.Context, in *api.ValueSelectionRequest, opts ...grpc.CallOption) (*api.ValueSelectionResponse, error) {
	return &api.ValueSelectionResponse{Selection: []string{}}, nil
}

func (p *fakePlugin) GetValueSelectionChunked(ctx context.Context, opts ...grpc.CallOption) (api.ModelPluginService_GetValueSelectionChunkedClient, error) {
	return nil, fmt.Errorf("verif: not modelled")
}

var _ api.ModelPluginServiceClient = &fakePlugin{}

func newRegistry(p *fakePlugin) pluginregistry.PluginRegistry {
	r := pluginregistry.NewPluginRegistry("verif-plugin:5152")
	r.NewClientFn(func(endpoint string) (api.ModelPluginServiceClient, error) { return p, nil })
	r.Start()
	return r
}

// FlattenJSON is an independent flattener of an RFC7951-style document into path -> value text.
// List entries are identified by all their scalar members that are named in keyHints or, if no
// hints are known, by the members "k" and "j" (the key names of the simulated schema).
func FlattenJSON(raw []byte) (map[string]string, error) {
	out := map[string]string{}
	if len(raw) == 0 {
		return out, nil
	}
	var root interface{}
	dec := json.NewDecoder(strings.NewReader(string(raw)))
	dec.UseNumber()
	if err := dec.Decode(&root); err != nil {
		return nil, err
	}
	m, ok := root.(map[string]interface{})
	if !ok {
		return nil, fmt.Errorf("document root is not an object")
	}
	flattenObj("", m, out)
	return out, nil
}

var keyNames = map[string]bool{"k": true, "j": true}

func flattenObj(prefix string, m map[string]interface{}, out map[string]string) {
	for name, v := range m {
		switch x := v.(type) {
		case map[string]interface{}:
			flattenObj(prefix+"/"+name, x, out)
		case []interface{}:
			isList := len(x) > 0
			for _, e := range x {
				if _, ok := e.(map[string]interface{}); !ok {
					isList = false
				}
			}
			if !isList {
				parts := make([]string, len(x))
				for i, e := range x {
					parts[i] = fmt.Sprint(e)
				}
				out[prefix+"/"+name] = "[" + strings.Join(parts, ",") + "]"
				continue
			}
			for _, e := range x {
				em := e.(map[string]interface{})
				keys := make([]string, 0)
				for kn, kv := range em {
					if keyNames[kn] {
						if _, scalar := kv.(map[string]interface{}); !scalar {
							keys = append(keys, kn)
						}
					}
				}
				// textual paths carry list keys in alphabetical order of the key names
				sort.Strings(keys)
				ep := prefix + "/" + name
				for _, kn := range keys {
					ep += "[" + kn + "=" + fmt.Sprint(em[kn]) + "]"
				}
				rest := map[string]interface{}{}
				for kn, kv := range em {
					rest[kn] = kv
				}
				flattenObj(ep, rest, out)
			}
		default:
			out[prefix+"/"+name] = fmt.Sprint(x)
		}
	}
}
