package world

import (
	"context"
	"fmt"
	"runtime/debug"
	"sort"
	"strings"
	"sync"
	"time"

	"github.com/gogo/protobuf/proto"
	adminapi "github.com/onosproject/onos-api/go/onos/config/admin"
	configapi "github.com/onosproject/onos-api/go/onos/config/v2"
	"github.com/onosproject/onos-config/pkg/northbound/admin"
	nbgnmi "github.com/onosproject/onos-config/pkg/northbound/gnmi/v2"
	txstore "github.com/onosproject/onos-config/pkg/store/v2/transaction"
	"github.com/openconfig/gnmi/proto/gnmi"
	"github.com/openconfig/gnmi/proto/gnmi_ext"
	"google.golang.org/grpc/metadata"
	"google.golang.org/grpc/status"

	sb "github.com/onosproject/onos-config/pkg/southbound/gnmi"
)

// DelValue is the token that stands for "delete this path" in abstract change maps.
const DelValue = "DEL"

// Handler is one in-flight northbound request (Set or RollbackTransaction) served by the real
// handler code on its own goroutine.
type Handler struct {
	Name string
	Kind string // "set" | "rollback"
	w    *World

	actor  *Actor
	ctx    context.Context
	cancel context.CancelFunc
	done   chan struct{}

	watchingCh chan struct{}
	poke       chan chan bool
	holdCh     chan struct{} // set before the Watch step: the handler's stream is not read until it is closed
	starved    bool          // an event the store owed this handler never arrived

	mu       sync.Mutex
	watching bool
	fin      bool
	lost     bool
	txID     string
	txIndex  int
	Sync     bool
	RbIndex  int
	Change   map[string]map[string]string

	// result
	OK      bool
	Code    int
	Msg     string
	RespIdx int
	RespID  string
	Results []AResult
}

// AResult is one (target, path, op) triple of a SetResponse.
type AResult struct {
	T  string `json:"t"`
	P  string `json:"p"`
	Op string `json:"op"`
}

func (h *Handler) finished() bool {
	h.mu.Lock()
	defer h.mu.Unlock()
	return h.fin
}

func (w *World) newHandler(name, kind string, fine bool) (*Handler, error) {
	if _, ok := w.handlers[name]; ok {
		return nil, fmt.Errorf("handler %s exists", name)
	}
	h := &Handler{Name: name, Kind: kind, w: w, done: make(chan struct{}), watchingCh: make(chan struct{}), poke: make(chan chan bool)}
	h.actor = newActor(w, "h:"+name)
	h.actor.fine = fine
	h.actor.CurCtl = "nb"
	h.actor.CurID = name
	h.ctx, h.cancel = context.WithCancel(context.Background())
	w.handlers[name] = h
	w.hOrder = append(w.hOrder, name)
	return h, nil
}

func (h *Handler) views() (*txView, *propView, *cfgView, *topoView, *connView) {
	w, p := h.w, h.w.proc
	return &txView{real: p.tx, actor: h.actor, w: w, h: h},
		&propView{real: p.prop, actor: h.actor, w: w},
		&cfgView{real: p.cfg, actor: h.actor, w: w},
		&topoView{t: w.topo, actor: h.actor, w: w},
		&connView{p: w.pool, actor: h.actor, w: w}
}

// BuildSetRequest turns an abstract change (target -> path -> value | DEL) into a gNMI SetRequest.
func BuildSetRequest(change map[string]map[string]string, sync bool) *gnmi.SetRequest {
	req := &gnmi.SetRequest{}
	targets := make([]string, 0, len(change))
	for t := range change {
		targets = append(targets, t)
	}
	sort.Strings(targets)
	for _, t := range targets {
		paths := make([]string, 0, len(change[t]))
		for p := range change[t] {
			paths = append(paths, p)
		}
		sort.Strings(paths)
		for _, p := range paths {
			gp := strToPath(p)
			gp.Target = t
			v := change[t][p]
			if v == DelValue {
				req.Delete = append(req.Delete, gp)
			} else {
				req.Update = append(req.Update, &gnmi.Update{Path: gp, Val: &gnmi.TypedValue{Value: &gnmi.TypedValue_StringVal{StringVal: v}}})
			}
		}
	}
	if sync {
		b, _ := proto.Marshal(&configapi.TransactionStrategy{Synchronicity: configapi.TransactionStrategy_SYNCHRONOUS})
		req.Extension = append(req.Extension, &gnmi_ext.Extension{Ext: &gnmi_ext.Extension_RegisteredExt{
			RegisteredExt: &gnmi_ext.RegisteredExtension{Id: configapi.TransactionStrategyExtensionID, Msg: b}}})
	}
	return req
}

// StartSet begins a Set. With fine=true the handler pauses before transactions.Create and
// before transactions.Watch; otherwise it runs until it waits for events or returns.
func (w *World) StartSet(name string, change map[string]map[string]string, sync, fine bool) error {
	if w.proc == nil {
		return nil
	}
	h, err := w.newHandler(name, "set", fine)
	if err != nil {
		return err
	}
	h.Sync = sync
	h.Change = change
	txv, propv, cfgv, topov, connv := h.views()
	srv := nbgnmi.NewServerForVerif(topov, txv, propv, cfgv, w.registry, connv, w.opt.SetSizeLimit)
	req := BuildSetRequest(change, sync)
	return h.run(func() {
		resp, err := srv.Set(h.ctx, req)
		h.mu.Lock()
		defer h.mu.Unlock()
		h.fin = true
		if err != nil {
			h.OK = false
			st, _ := status.FromError(err)
			h.Code = int(st.Code())
			h.Msg = st.Message()
			return
		}
		h.OK = true
		for _, r := range resp.Response {
			op := "update"
			if r.Op == gnmi.UpdateResult_DELETE {
				op = "delete"
			}
			h.Results = append(h.Results, AResult{T: r.Path.Target, P: PathToStr(r.Path), Op: op})
		}
		sort.Slice(h.Results, func(i, j int) bool {
			if h.Results[i].T != h.Results[j].T {
				return h.Results[i].T < h.Results[j].T
			}
			return h.Results[i].P < h.Results[j].P
		})
		for _, e := range resp.Extension {
			if re, ok := e.Ext.(*gnmi_ext.Extension_RegisteredExt); ok && re.RegisteredExt.Id == configapi.TransactionInfoExtensionID {
				info := &configapi.TransactionInfo{}
				if proto.Unmarshal(re.RegisteredExt.Msg, info) == nil {
					h.RespIdx = int(info.Index)
					h.RespID = string(info.ID)
				}
			}
		}
	})
}

// StartSetRaw begins a Set with an arbitrary request and incoming metadata (identity); it is not fine-grained.
func (w *World) StartSetRaw(name string, req *gnmi.SetRequest, md map[string]string) (*Handler, error) {
	h, err := w.newHandler(name, "set", false)
	if err != nil {
		return nil, err
	}
	if len(md) > 0 {
		kv := []string{}
		for k, v := range md {
			kv = append(kv, k, v)
		}
		h.ctx = metadata.NewIncomingContext(h.ctx, metadata.Pairs(kv...))
	}
	txv, propv, cfgv, topov, connv := h.views()
	srv := nbgnmi.NewServerForVerif(topov, txv, propv, cfgv, w.registry, connv, w.opt.SetSizeLimit)
	err = h.run(func() {
		defer func() {
			if r := recover(); r != nil {
				h.mu.Lock()
				h.fin, h.OK, h.Code, h.Msg = true, false, -1, fmt.Sprint("panic: ", r, " @ ", panicSite())
				h.mu.Unlock()
			}
		}()
		_, err := srv.Set(h.ctx, req)
		h.mu.Lock()
		defer h.mu.Unlock()
		h.fin = true
		if err != nil {
			st, _ := status.FromError(err)
			h.OK, h.Code, h.Msg = false, int(st.Code()), st.Message()
			return
		}
		h.OK = true
	})
	return h, err
}

func panicSite() string {
	var out []string
	for _, l := range strings.Split(string(debug.Stack()), "\n") {
		if strings.Contains(l, "/repo/pkg/") {
			l = strings.TrimSpace(l)
			if i := strings.Index(l, " +0x"); i > 0 {
				l = l[:i]
			}
			out = append(out, strings.TrimPrefix(l, "/repo/"))
			if len(out) == 3 {
				break
			}
		}
	}
	return strings.Join(out, " < ")
}

// Outcome reports what a handler answered so far.
func (h *Handler) Outcome() (done bool, ok bool, code int, msg string, txIndex int) {
	h.mu.Lock()
	defer h.mu.Unlock()
	return h.fin, h.OK, h.Code, h.Msg, h.txIndex
}

// AbandonHandlers forgets every handler (unfinished ones see their client go away).
func (w *World) AbandonHandlers() {
	for _, hn := range w.hOrder {
		h := w.handlers[hn]
		if !h.finished() {
			h.lose()
		}
	}
	w.handlers = map[string]*Handler{}
	w.hOrder = nil
}

// SetLimit changes GNMI_SET_SIZE_LIMIT for the servers built from now on.
func (w *World) SetLimit(n int) { w.opt.SetSizeLimit = n }

// Settle waits for the event plumbing to come to rest.
func (w *World) Settle() error { return w.settle() }

// NBServer returns a gNMI server over ungated views (observations, panics tests).
func (w *World) NBServer() *nbgnmi.Server { return w.nbServer() }

// NBServerWithConns returns a gNMI server whose connection manager is the given one.
func (w *World) NBServerWithConns(conns sb.ConnManager) *nbgnmi.Server {
	p := w.proc
	return nbgnmi.NewServerForVerif(&topoView{t: w.topo, w: w}, &txView{real: p.tx, w: w}, &propView{real: p.prop, w: w},
		&cfgView{real: p.cfg, w: w}, w.registry, conns, w.opt.SetSizeLimit)
}

// AdminServer returns the admin server over ungated views.
func (w *World) AdminServer() *admin.Server {
	p := w.proc
	return admin.NewServerForVerif(&txView{real: p.tx, w: w}, &cfgView{real: p.cfg, w: w}, w.registry)
}

// TxChange returns the change map (target -> path -> value | DEL) of the transaction with the given index.
func (w *World) TxChange(index int) (map[string]map[string]string, error) {
	tx, err := w.obsTx.GetByIndex(context.Background(), configapi.Index(index))
	if err != nil {
		return nil, err
	}
	return projTx(w, tx).Ch, nil
}

// TxCount returns the length of the transaction log.
func (w *World) TxCount() (int, error) {
	l, err := w.obsTx.List(context.Background())
	return len(l), err
}

// StartRollback begins an admin RollbackTransaction(index).
func (w *World) StartRollback(name string, index int, fine bool) error {
	if w.proc == nil {
		return nil
	}
	h, err := w.newHandler(name, "rollback", fine)
	if err != nil {
		return err
	}
	h.Sync = true
	h.RbIndex = index
	txv, _, cfgv, _, _ := h.views()
	srv := admin.NewServerForVerif(txv, cfgv, w.registry)
	return h.run(func() {
		resp, err := srv.RollbackTransaction(h.ctx, &adminapi.RollbackRequest{Index: configapi.Index(index)})
		h.mu.Lock()
		defer h.mu.Unlock()
		h.fin = true
		if err != nil {
			h.OK = false
			st, _ := status.FromError(err)
			h.Code = int(st.Code())
			h.Msg = st.Message()
			return
		}
		h.OK = true
		h.RespIdx = int(resp.Index)
		h.RespID = string(resp.ID)
	})
}

func (h *Handler) run(fn func()) error {
	h.actor.mu.Lock()
	h.actor.busy = true
	h.actor.mu.Unlock()
	go func() {
		fn()
		h.cancel()
		close(h.done)
	}()
	return h.waitStable()
}

func (h *Handler) waitStable() error {
	h.mu.Lock()
	watching := h.watching
	h.mu.Unlock()
	var wch chan struct{}
	if !watching {
		wch = h.watchingCh
	}
	select {
	case m := <-h.actor.yield:
		h.actor.mu.Lock()
		h.actor.paused = m.gate
		h.actor.mu.Unlock()
		return nil
	case <-wch:
		h.mu.Lock()
		h.watching = true
		h.mu.Unlock()
		return nil
	case <-h.done:
		h.actor.mu.Lock()
		h.actor.busy = false
		h.actor.mu.Unlock()
		return nil
	case <-time.After(InfraTimeout):
		return fmt.Errorf("infra: handler %s neither paused, waited nor returned", h.Name)
	}
}

// Exec releases a handler paused at a gate.
func (h *Handler) Exec() (bool, error) {
	h.actor.mu.Lock()
	if h.actor.paused == nil {
		h.actor.mu.Unlock()
		return false, nil
	}
	h.actor.paused = nil
	h.actor.mu.Unlock()
	h.actor.resume <- struct{}{}
	return true, h.waitStable()
}

// watch is the handler's transactions.Watch, called on the handler goroutine.
func (h *Handler) watch(ctx context.Context, real txstore.Store, ch chan<- configapi.TransactionEvent, opts ...txstore.WatchOption) error {
	if err := h.actor.gate("tx.Watch", h.Name); err != nil {
		return err
	}
	mid := make(chan configapi.TransactionEvent)
	if err := real.Watch(ctx, mid, opts...); err != nil {
		return err
	}
	f := h.w.newForwarder("tx", 1)
	f.h = h
	h.mu.Lock()
	f.onlyKey = h.txID
	h.mu.Unlock()
	hold := h.holdCh
	go func() {
		defer h.w.dropForwarder(f)
		// a consumer that is slow to take its first event: the store has the watch, nobody reads it yet
		if hold != nil {
			select {
			case <-hold:
			case <-h.done:
			}
		}
		for {
			select {
			case ev, ok := <-mid:
				if !ok {
					close(ch)
					return
				}
				select {
				case ch <- ev:
				case <-h.done:
				}
				f.saw(string(ev.Transaction.ID), ev.Transaction.Version, ev.Type == configapi.TransactionEvent_REPLAYED)
			case reply := <-h.poke:
				// a harmless event: the handlers ignore everything that is not COMMITTED/APPLIED/FAILED
				ev := configapi.TransactionEvent{Type: configapi.TransactionEvent_UPDATED}
				ev.Transaction.ID = configapi.TransactionID(f.onlyKey)
				select {
				case ch <- ev:
					reply <- true
				case <-h.done:
					reply <- false
				}
			}
		}
	}()
	close(h.watchingCh)
	return nil
}

// settle makes sure a waiting handler has consumed every event forwarded so far.
func (h *Handler) settle() error {
	h.mu.Lock()
	watching, fin := h.watching, h.fin
	h.mu.Unlock()
	if !watching || fin {
		return nil
	}
	reply := make(chan bool, 1)
	select {
	case h.poke <- reply:
	case <-h.done:
		h.markDone()
		return nil
	case <-time.After(InfraTimeout):
		return fmt.Errorf("infra: handler %s stream does not take the sentinel", h.Name)
	}
	select {
	case ok := <-reply:
		if !ok {
			h.markDone()
		}
		return nil
	case <-time.After(InfraTimeout):
		return fmt.Errorf("infra: handler %s neither consumed the sentinel nor returned", h.Name)
	}
}

func (h *Handler) markDone() {
	select {
	case <-h.done:
	case <-time.After(InfraTimeout):
	}
	h.actor.mu.Lock()
	h.actor.busy = false
	h.actor.mu.Unlock()
}

// lose models the process dying under an in-flight request.
func (h *Handler) lose() {
	h.mu.Lock()
	h.lost = true
	h.mu.Unlock()
	h.actor.mu.Lock()
	h.actor.dead = true
	paused := h.actor.paused != nil
	h.actor.paused = nil
	h.actor.mu.Unlock()
	if paused {
		h.actor.resume <- struct{}{}
	}
	h.cancel()
	select {
	case <-h.done:
	case <-time.After(InfraTimeout):
	}
}

// noteCreated is called by the handler's tx view when its transaction has been appended.
func (h *Handler) noteCreated(id string, index int) {
	h.mu.Lock()
	h.txID = id
	h.txIndex = index
	h.mu.Unlock()
}

// ---------------------------------------------------------------------------------------------
// read-only northbound calls issued by the world itself (observations)
// ---------------------------------------------------------------------------------------------

func (w *World) nbServer() *nbgnmi.Server {
	p := w.proc
	return nbgnmi.NewServerForVerif(&topoView{t: w.topo, w: w}, &txView{real: p.tx, w: w}, &propView{real: p.prop, w: w},
		&cfgView{real: p.cfg, w: w}, w.registry, &connView{p: w.pool, w: w}, w.opt.SetSizeLimit)
}

// GetAll issues a real northbound Get for the whole tree of target t and returns path -> value.
func (w *World) GetAll(t string, enc gnmi.Encoding) (map[string]string, error) {
	return w.GetPath(t, "/", enc)
}

// GetPath issues a real northbound Get for a textual path pattern.
func (w *World) GetPath(t, path string, enc gnmi.Encoding) (map[string]string, error) {
	if w.proc == nil {
		return nil, fmt.Errorf("no process")
	}
	gp := strToPath(path)
	gp.Target = t
	resp, err := w.nbServer().Get(context.Background(), &gnmi.GetRequest{Path: []*gnmi.Path{gp}, Encoding: enc})
	if err != nil {
		return nil, err
	}
	out := map[string]string{}
	for _, n := range resp.Notification {
		for _, u := range n.Update {
			if u.Val == nil {
				continue
			}
			if j := u.Val.GetJsonVal(); j != nil {
				leaves, err := FlattenJSON(j)
				if err != nil {
					return nil, err
				}
				for k, v := range leaves {
					out[k] = v
				}
				continue
			}
			out[PathToStr(u.Path)] = TypedValueToStr(u.Val)
		}
	}
	return out, nil
}
