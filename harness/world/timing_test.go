package world

import (
	"fmt"
	"testing"
	"time"
)

func TestTiming(t *testing.T) {
	t0 := time.Now()
	w, err := New(Options{Targets: []string{"t1"}, Seed: 1})
	if err != nil {
		t.Fatal(err)
	}
	fmt.Println("new", time.Since(t0))
	w.Trace = &Trace{}
	for _, st := range []Step{{K: "connup", T: "t1", Conn: "c1"}, {K: "drain"}, {K: "set", H: "h1", Ch: map[string]map[string]string{"t1": {"/a/b": "v1"}}}, {K: "drain"}} {
		t1 := time.Now()
		n := len(w.Trace.Lines)
		if err := w.Step(st); err != nil {
			t.Fatal(err)
		}
		fmt.Println(st.K, time.Since(t1), len(w.Trace.Lines)-n)
	}
	t2 := time.Now()
	w.Close()
	fmt.Println("close", time.Since(t2))
}
