// v3 world: the REAL v3 (per-target) transaction, configuration and mastership reconcilers over the REAL
// Atomix-backed v3 stores, a simulated device behind the real southbound client, a simulated topology
// and model plugin.  Nothing upstream drives the v3 controllers (no northbound, no manager wiring), so the
// world plays the part the specification gives to the northbound: it appends changes and requests
// rollbacks exactly as spec/Transaction.tla's AppendChange / RollbackChange do.
//
// A behaviour is a schedule: which object is reconciled next, where the process dies inside a reconcile
// (after how many persisted effects), which other step runs between the read and the n-th write of a
// reconcile (store-call granularity interleaving), and what the environment does.  After every step the
// abstract state projected from the real records is written as one ndjson line.
package world

import (
	"context"
	"encoding/json"
	"fmt"
	"os"
	"sort"
	"strings"
	"sync"
	"time"

	"github.com/atomix/go-sdk/pkg/test"
	v3api "github.com/onosproject/onos-api/go/onos/config/v3"
	topoapi "github.com/onosproject/onos-api/go/onos/topo"
	ctlutils "github.com/onosproject/onos-config/pkg/controller/utils"
	cfgctl3 "github.com/onosproject/onos-config/pkg/controller/v3/configuration"
	mastctl3 "github.com/onosproject/onos-config/pkg/controller/v3/mastership"
	txctl3 "github.com/onosproject/onos-config/pkg/controller/v3/transaction"
	"github.com/onosproject/onos-config/pkg/pluginregistry"
	sb "github.com/onosproject/onos-config/pkg/southbound/gnmi"
	cfgstore3 "github.com/onosproject/onos-config/pkg/store/v3/configuration"
	txstore3 "github.com/onosproject/onos-config/pkg/store/v3/transaction"
	"github.com/onosproject/onos-lib-go/pkg/controller"
	"github.com/onosproject/onos-lib-go/pkg/errors"
	baseClient "github.com/openconfig/gnmi/client"
	gclient "github.com/openconfig/gnmi/client/gnmi"
	gpb "github.com/openconfig/gnmi/proto/gnmi"
	"google.golang.org/grpc/codes"
	"google.golang.org/grpc/status"
)

// V3Step is one step of a v3 behaviour.
type V3Step struct {
	K    string            `json:"k"`              // append rollback rtx rcfg rmast connect disconnect devstop devstart devfail drain heal
	I    int               `json:"i,omitempty"`    // transaction index (rollback, rtx)
	Ch   map[string]string `json:"ch,omitempty"`   // append: path -> value, "<del>" deletes
	Cut  int               `json:"cut,omitempty"`  // rtx/rcfg/rmast: the process dies just before its Cut-th effect (0 = it does not)
	At   int               `json:"at,omitempty"`   // rtx/rcfg: the steps of Mid run just before its At-th effect
	Mid  []V3Step          `json:"mid,omitempty"`  //   (a write of another controller / the client between this reconcile's read and write)
	Code int               `json:"code,omitempty"` // devfail: gRPC code
	Cnt  int               `json:"cnt,omitempty"`  // devfail: how many Sets
	Pol  string            `json:"pol,omitempty"`  // drain: "", "newest", "oldest"
}

// V3Scenario is a behaviour exported by TLC (or hand-written).
type V3Scenario struct {
	Name     string   `json:"name"`
	Seed     int64    `json:"seed"`
	NoPlugin bool     `json:"noplugin,omitempty"`
	Live     bool     `json:"live,omitempty"` // reconciles are served from the REAL watchers' wake-ups only
	Steps    []V3Step `json:"steps"`
}

const v3Target = "t1"

// V3World is one deployment.
type V3World struct {
	atomix   *test.Client
	topo     *fakeTopo
	dev      *Device
	plugin   *fakePlugin
	registry pluginregistry.PluginRegistry
	nodeID   topoapi.ID
	target   v3api.Target

	rawTx  txstore3.Store
	rawCfg cfgstore3.Store

	mu      sync.Mutex
	conns   map[sb.ConnID]*liveConn
	connSeq int
	devUp   bool

	// the reconcile in flight (store-call accounting)
	fl *flight

	lines   []map[string]interface{}
	emitErr error

	// live mode: the ids the real watchers of the three controllers have emitted and that were not served yet
	live     bool
	wmu      sync.Mutex
	pendTx   map[int]bool
	pendCfg  bool
	pendMast bool
	wakeups  int64
	stops    []func()
}

type flight struct {
	effects int  // effects attempted so far
	done    int  // effects that took place (successful writes, device Sets that reached the device)
	cut     int  // die just before this effect (0: never)
	at      int  // run mid just before this effect
	mid     []V3Step
	dead    bool
	w       *V3World
	nested  bool
}

// NewV3World builds a world with an empty transaction log and an initial configuration record.
func NewV3World(sc V3Scenario) (*V3World, error) {
	w := &V3World{
		atomix: test.NewClient(),
		topo:   newFakeTopo(),
		nodeID: ctlutils.GetOnosConfigID(),
		conns:  map[sb.ConnID]*liveConn{},
		devUp:  true,
	}
	typ := ModelType
	if sc.NoPlugin {
		typ = "nomodel"
	}
	w.target = v3api.Target{ID: v3api.TargetID(v3Target), Type: v3api.TargetType(typ), Version: v3api.TargetVersion(ModelVersion)}
	w.plugin = newFakePlugin(DefaultSchema())
	w.registry = newRegistry(w.plugin)
	node := &topoapi.Object{ID: w.nodeID, Type: topoapi.Object_ENTITY,
		Obj: &topoapi.Object_Entity{Entity: &topoapi.Entity{KindID: topoapi.ONOS_CONFIG}}}
	if err := w.topo.create(node); err != nil {
		return nil, err
	}
	ent := &topoapi.Object{ID: topoapi.ID(v3Target), Type: topoapi.Object_ENTITY,
		Obj: &topoapi.Object_Entity{Entity: &topoapi.Entity{KindID: "verif-device"}}}
	_ = ent.SetAspect(&topoapi.Configurable{Type: typ, Version: ModelVersion, Target: v3Target, Address: "bufnet"})
	if err := w.topo.create(ent); err != nil {
		return nil, err
	}
	w.dev = newDevice(v3Target)
	var err error
	if w.rawTx, err = txstore3.NewAtomixStore(w.atomix); err != nil {
		return nil, err
	}
	if w.rawCfg, err = cfgstore3.NewAtomixStore(w.atomix); err != nil {
		return nil, err
	}
	// the configuration record of the target (created by the northbound in the design; nothing in the repository
	// creates it for v3): empty, mastership unset
	cfg := &v3api.Configuration{ID: v3api.ConfigurationID{Target: w.target},
		Status: v3api.ConfigurationStatus{Mastership: &v3api.MastershipStatus{}}}
	ctx, cancel := context.WithTimeout(context.Background(), 10*time.Second)
	defer cancel()
	if err := w.rawCfg.Create(ctx, cfg); err != nil {
		return nil, fmt.Errorf("infra: create configuration: %v", err)
	}
	if sc.Live {
		if err := w.startWatchers(); err != nil {
			return nil, fmt.Errorf("infra: start watchers: %v", err)
		}
	}
	return w, nil
}

// startWatchers starts the REAL watchers of the v3 transaction, configuration and mastership controllers; the ids they
// emit are collected in the world's work sets (the controller runtime's queues)
func (w *V3World) startWatchers() error {
	w.live = true
	w.pendTx = map[int]bool{}
	tp := &v3Topo{w: w, watcher: true}
	groups := map[string][]controller.Watcher{
		"tx":   txctl3.NewWatchersForVerif(w.rawTx, w.rawCfg),
		"cfg":  cfgctl3.NewWatchersForVerif(tp, w.rawCfg),
		"mast": mastctl3.NewWatchersForVerif(tp, w.rawCfg),
	}
	for ctl, ws := range groups {
		for _, wt := range ws {
			ch := make(chan controller.ID, 1024)
			ctl := ctl
			go func() {
				for id := range ch {
					w.wmu.Lock()
					w.wakeups++
					switch v := id.Value.(type) {
					case v3api.TransactionID:
						if v.Index > 0 {
							w.pendTx[int(v.Index)] = true
						}
					case v3api.ConfigurationID:
						if ctl == "cfg" {
							w.pendCfg = true
						} else if ctl == "mast" {
							w.pendMast = true
						}
					}
					w.wmu.Unlock()
				}
			}()
			if err := wt.Start(ch); err != nil {
				return err
			}
			w.stops = append(w.stops, wt.Stop)
		}
	}
	return nil
}

// settle waits until the watchers have been silent for n polls of 10 ms
func (w *V3World) settle(n int) {
	quiet := 0
	w.wmu.Lock()
	last := w.wakeups
	w.wmu.Unlock()
	for i := 0; quiet < n && i < 400; i++ {
		time.Sleep(10 * time.Millisecond)
		w.wmu.Lock()
		cur := w.wakeups
		w.wmu.Unlock()
		if cur == last {
			quiet++
		} else {
			quiet, last = 0, cur
		}
	}
}

// take removes the step's object from the work sets; false if it was not pending
func (w *V3World) take(st V3Step) bool {
	w.wmu.Lock()
	defer w.wmu.Unlock()
	switch st.K {
	case "rtx":
		if w.pendTx[st.I] {
			delete(w.pendTx, st.I)
			return true
		}
	case "rcfg":
		if w.pendCfg {
			w.pendCfg = false
			return true
		}
	case "rmast":
		if w.pendMast {
			w.pendMast = false
			return true
		}
	}
	return false
}

// after applies the controller runtime's Result semantics to the work sets
func (w *V3World) after(st V3Step, res v3Result) {
	w.wmu.Lock()
	defer w.wmu.Unlock()
	if res.Cut {
		// the process died and is restarted: every watcher replays every record
		n := w.numTxLocked()
		for i := 1; i <= n; i++ {
			w.pendTx[i] = true
		}
		w.pendCfg, w.pendMast = true, true
		return
	}
	if res.Err != "" || res.Panic != "" {
		switch st.K { // a failed request is retried
		case "rtx":
			w.pendTx[st.I] = true
		case "rcfg":
			w.pendCfg = true
		case "rmast":
			w.pendMast = true
		}
	}
	if res.Requeue != 0 {
		w.pendTx[res.Requeue] = true
	}
}

func (w *V3World) numTxLocked() int { return w.numTx() }

func (w *V3World) pendingList() []string {
	w.wmu.Lock()
	defer w.wmu.Unlock()
	out := []string{}
	if w.pendMast {
		out = append(out, "mast")
	}
	if w.pendCfg {
		out = append(out, "cfg")
	}
	ids := []int{}
	for i := range w.pendTx {
		ids = append(ids, i)
	}
	sort.Ints(ids)
	for _, i := range ids {
		out = append(out, fmt.Sprintf("tx%d", i))
	}
	return out
}

// wdrain serves the REAL work sets until they are empty (and stay empty): what the controllers do without outside prodding
func (w *V3World) wdrain(pol string) map[string]interface{} {
	act := map[string]interface{}{"k": "wdrain"}
	served, overrun := 0, false
	for {
		w.settle(3)
		pl := w.pendingList()
		if len(pl) == 0 {
			w.settle(30) // stay empty for 300 ms
			if pl = w.pendingList(); len(pl) == 0 {
				break
			}
		}
		// a transaction whose number is beyond the log is dropped (the real reconciler finds nothing)
		pick := pl[0]
		if pol == "newest" {
			pick = pl[len(pl)-1]
		}
		st := V3Step{K: "r" + pick}
		if strings.HasPrefix(pick, "tx") {
			st = V3Step{K: "rtx"}
			fmt.Sscanf(pick, "tx%d", &st.I)
		}
		w.take(st)
		res := w.reconcile(st)
		w.after(st, res)
		served++
		if res.Effects > 0 || res.Err != "" {
			a := reconcileAct(st, res)
			a["indrain"] = true
			w.emit(a)
		}
		if served >= 600 {
			overrun = true
			break
		}
	}
	act["served"] = served
	act["stable"] = !overrun
	if overrun {
		act["overrun"] = true
	}
	return act
}


// Close releases everything.
func (w *V3World) Close() {
	for _, stop := range w.stops {
		stop()
	}
	for id := range w.conns {
		w.disconnect(string(id))
	}
	w.dev.stop()
	done := make(chan struct{})
	go func() { w.atomix.Close(); close(done) }()
	select {
	case <-done:
	case <-time.After(5 * time.Second):
	}
}

// ---------------------------------------------------------------------------------------------
// store decorators: effect accounting, death of the process, interleaving before the n-th effect

var errDead = errors.NewUnavailable("verif: the process is dead")

func (f *flight) read() error {
	if f != nil && f.dead {
		return errDead
	}
	return nil
}

// effect is called before every persisted effect of the reconcile in flight
func (f *flight) effect() error {
	if f == nil {
		return nil
	}
	if f.dead {
		return errDead
	}
	f.effects++
	if f.cut > 0 && f.effects == f.cut {
		f.dead = true
		return errDead
	}
	if f.at > 0 && f.effects == f.at && !f.nested {
		f.nested = true
		for _, st := range f.mid {
			f.w.execInner(st)
		}
		f.nested = false
	}
	return nil
}

type v3TxView struct {
	s txstore3.Store
	w *V3World
}

func (v *v3TxView) f() *flight { return v.w.fl }
func (v *v3TxView) Get(ctx context.Context, id v3api.TransactionID) (*v3api.Transaction, error) {
	if err := v.f().read(); err != nil {
		return nil, err
	}
	return v.s.Get(ctx, id)
}
func (v *v3TxView) GetKey(ctx context.Context, target v3api.Target, key string) (*v3api.Transaction, error) {
	if err := v.f().read(); err != nil {
		return nil, err
	}
	return v.s.GetKey(ctx, target, key)
}
func (v *v3TxView) Create(ctx context.Context, tx *v3api.Transaction) error {
	if err := v.f().effect(); err != nil {
		return err
	}
	err := v.s.Create(ctx, tx)
	v.w.took(err)
	return err
}
func (v *v3TxView) Update(ctx context.Context, tx *v3api.Transaction) error {
	if err := v.f().effect(); err != nil {
		return err
	}
	err := v.s.Update(ctx, tx)
	v.w.took(err)
	return err
}
func (v *v3TxView) UpdateStatus(ctx context.Context, tx *v3api.Transaction) error {
	if err := v.f().effect(); err != nil {
		return err
	}
	err := v.s.UpdateStatus(ctx, tx)
	v.w.took(err)
	return err
}
func (v *v3TxView) List(ctx context.Context) ([]v3api.Transaction, error) {
	if err := v.f().read(); err != nil {
		return nil, err
	}
	return v.s.List(ctx)
}
func (v *v3TxView) Watch(ctx context.Context, ch chan<- v3api.TransactionEvent, opts ...txstore3.WatchOption) error {
	return v.s.Watch(ctx, ch, opts...)
}
func (v *v3TxView) Close(ctx context.Context) error { return nil }

type v3CfgView struct {
	s cfgstore3.Store
	w *V3World
}

func (v *v3CfgView) f() *flight { return v.w.fl }
func (v *v3CfgView) Get(ctx context.Context, id v3api.ConfigurationID) (*v3api.Configuration, error) {
	if err := v.f().read(); err != nil {
		return nil, err
	}
	return v.s.Get(ctx, id)
}
func (v *v3CfgView) Create(ctx context.Context, c *v3api.Configuration) error {
	if err := v.f().effect(); err != nil {
		return err
	}
	err := v.s.Create(ctx, c)
	v.w.took(err)
	return err
}
func (v *v3CfgView) Update(ctx context.Context, c *v3api.Configuration) error {
	if err := v.f().effect(); err != nil {
		return err
	}
	err := v.s.Update(ctx, c)
	v.w.took(err)
	return err
}
func (v *v3CfgView) UpdateStatus(ctx context.Context, c *v3api.Configuration) error {
	if err := v.f().effect(); err != nil {
		return err
	}
	err := v.s.UpdateStatus(ctx, c)
	v.w.took(err)
	return err
}
func (v *v3CfgView) List(ctx context.Context) ([]*v3api.Configuration, error) {
	if err := v.f().read(); err != nil {
		return nil, err
	}
	return v.s.List(ctx)
}
func (v *v3CfgView) Watch(ctx context.Context, ch chan<- v3api.ConfigurationEvent, opts ...cfgstore3.WatchOption) error {
	return v.s.Watch(ctx, ch, opts...)
}
func (v *v3CfgView) Close(ctx context.Context) error { return nil }

func (w *V3World) took(err error) {
	if err == nil && w.fl != nil {
		w.fl.done++
	}
}

// topology and connections as the reconcilers see them
type v3Topo struct {
	w       *V3World
	watcher bool // used by watcher goroutines: outside the flight accounting of reconciles
}

func (t *v3Topo) Create(ctx context.Context, o *topoapi.Object) error { return t.w.topo.create(o) }
func (t *v3Topo) Update(ctx context.Context, o *topoapi.Object) error {
	return errors.NewNotSupported("verif: topo update not modelled")
}
func (t *v3Topo) Get(ctx context.Context, id topoapi.ID) (*topoapi.Object, error) {
	if t.watcher {
		return t.w.topo.get(id)
	}
	if err := t.w.fl.read(); err != nil {
		return nil, err
	}
	return t.w.topo.get(id)
}
func (t *v3Topo) List(ctx context.Context, f *topoapi.Filters) ([]topoapi.Object, error) {
	if err := t.w.fl.read(); err != nil {
		return nil, err
	}
	return t.w.topo.list(f), nil
}
func (t *v3Topo) Delete(ctx context.Context, o *topoapi.Object) error { return t.w.topo.delete(o.ID) }
func (t *v3Topo) Watch(ctx context.Context, ch chan<- topoapi.Event, f *topoapi.Filters) error {
	ft := t.w.topo
	ft.mu.Lock()
	id := ft.nextW
	ft.nextW++
	tw := &topoWatcher{ch: ch, ctx: ctx, q: make(chan topoapi.Event, 4096)}
	ids := make([]string, 0, len(ft.objects))
	for oid := range ft.objects {
		ids = append(ids, string(oid))
	}
	sort.Strings(ids)
	for _, oid := range ids {
		tw.q <- topoapi.Event{Type: topoapi.EventType_NONE, Object: *cloneObj(ft.objects[topoapi.ID(oid)])}
	}
	ft.watchers[id] = tw
	ft.mu.Unlock()
	go func() {
		defer func() {
			ft.mu.Lock()
			delete(ft.watchers, id)
			ft.mu.Unlock()
			close(ch)
		}()
		for {
			select {
			case ev := <-tw.q:
				select {
				case ch <- ev:
				case <-ctx.Done():
					return
				}
			case <-ctx.Done():
				return
			}
		}
	}()
	return nil
}

type v3Conns struct{ w *V3World }

type v3Conn struct {
	sb.Conn
	w *V3World
}

// Set is a persisted effect of the reconcile in flight (the device changes)
func (c *v3Conn) Set(ctx context.Context, r *gpb.SetRequest) (*gpb.SetResponse, error) {
	if err := c.w.fl.effect(); err != nil {
		return nil, status.Error(codes.Unavailable, "verif: the process is dead")
	}
	resp, err := c.Conn.Set(ctx, r)
	c.w.took(err)
	return resp, err
}

func (m *v3Conns) Get(ctx context.Context, id sb.ConnID) (sb.Conn, bool) {
	m.w.mu.Lock()
	defer m.w.mu.Unlock()
	lc, ok := m.w.conns[id]
	if !ok {
		return nil, false
	}
	return &v3Conn{Conn: lc.conn, w: m.w}, true
}
func (m *v3Conns) GetByTarget(ctx context.Context, targetID topoapi.ID) (sb.Client, error) {
	return nil, errors.NewNotFound("verif: not used by the v3 controllers")
}
func (m *v3Conns) Connect(ctx context.Context, target *topoapi.Object) error { return nil }
func (m *v3Conns) Disconnect(ctx context.Context, targetID topoapi.ID) error { return nil }
func (m *v3Conns) Watch(ctx context.Context, ch chan<- sb.Conn) error       { return nil }

// ---------------------------------------------------------------------------------------------
// environment

func (w *V3World) connect(id string) error {
	if !w.devUp {
		return nil
	}
	if _, ok := w.conns[sb.ConnID(id)]; ok {
		return nil
	}
	cc, err := w.dev.dial(context.Background(), id)
	if err != nil {
		return err
	}
	gc, err := gclient.NewFromConn(context.Background(), cc, baseClient.Destination{Target: v3Target})
	if err != nil {
		return err
	}
	c := sb.NewConnForVerif(sb.ConnID(id), topoapi.ID(v3Target), gc)
	w.mu.Lock()
	w.conns[sb.ConnID(id)] = &liveConn{conn: c, cc: cc}
	w.mu.Unlock()
	// the CONTROLS relation the connection controller creates for a live connection
	rel := &topoapi.Object{ID: topoapi.ID(id), Type: topoapi.Object_RELATION,
		Obj: &topoapi.Object_Relation{Relation: &topoapi.Relation{KindID: topoapi.CONTROLS, SrcEntityID: w.nodeID, TgtEntityID: topoapi.ID(v3Target)}}}
	return w.topo.create(rel)
}

func (w *V3World) disconnect(id string) {
	w.mu.Lock()
	lc, ok := w.conns[sb.ConnID(id)]
	delete(w.conns, sb.ConnID(id))
	w.mu.Unlock()
	if ok {
		_ = lc.cc.Close()
		_ = w.topo.delete(topoapi.ID(id))
	}
}

func (w *V3World) connIDs() []string {
	w.mu.Lock()
	defer w.mu.Unlock()
	out := []string{}
	for id := range w.conns {
		out = append(out, string(id))
	}
	sort.Strings(out)
	return out
}

// ---------------------------------------------------------------------------------------------
// steps

func v3Value(path, v string, index v3api.Index) v3api.PathValue {
	if v == "<del>" {
		return v3api.PathValue{Path: path, Deleted: true, Index: index}
	}
	return v3api.PathValue{Path: path, Value: v3api.TypedValue{Bytes: []byte(v), Type: v3api.ValueType_STRING}, Index: index}
}

func (w *V3World) txID(i int) v3api.TransactionID {
	return v3api.TransactionID{Target: w.target, Index: v3api.Index(i)}
}

func (w *V3World) reconcilers() (controller.Reconciler, controller.Reconciler, controller.Reconciler) {
	tx := &v3TxView{s: w.rawTx, w: w}
	cfg := &v3CfgView{s: w.rawCfg, w: w}
	tp := &v3Topo{w: w}
	cm := &v3Conns{w: w}
	return txctl3.NewReconcilerForVerif(v3api.NodeID(w.nodeID), tx, cfg, cm, tp, w.registry),
		cfgctl3.NewReconcilerForVerif(tp, cm, cfg),
		mastctl3.NewReconcilerForVerif(tp, cfg)
}

type v3Result struct {
	Effects int    `json:"eff"`
	Err     string `json:"err,omitempty"`
	Panic   string `json:"panic,omitempty"`
	Requeue int    `json:"rq,omitempty"`
	Cut     bool   `json:"died,omitempty"`
}

// reconcile runs one real Reconcile call under the step's flight plan
func (w *V3World) reconcile(st V3Step) (res v3Result) {
	outer := w.fl
	fl := &flight{cut: st.Cut, at: st.At, mid: st.Mid, w: w, nested: outer != nil}
	w.fl = fl
	defer func() {
		if p := recover(); p != nil {
			res.Panic = fmt.Sprint(p)
		}
		res.Effects = fl.done
		res.Cut = fl.dead
		w.fl = outer
	}()
	txr, cfgr, mastr := w.reconcilers()
	var r controller.Result
	var err error
	switch st.K {
	case "rtx":
		r, err = txr.Reconcile(controller.NewID(w.txID(st.I)))
	case "rcfg":
		r, err = cfgr.Reconcile(controller.NewID(v3api.ConfigurationID{Target: w.target}))
	case "rmast":
		r, err = mastr.Reconcile(controller.NewID(v3api.ConfigurationID{Target: w.target}))
	}
	if err != nil {
		res.Err = err.Error()
		if len(res.Err) > 120 {
			res.Err = res.Err[:120]
		}
	}
	if id, ok := r.Requeue.Value.(v3api.TransactionID); ok {
		res.Requeue = int(id.Index)
	}
	return res
}

func (w *V3World) appendChange(ch map[string]string) error {
	ctx, cancel := context.WithTimeout(context.Background(), 10*time.Second)
	defer cancel()
	tx := &v3api.Transaction{ID: v3api.TransactionID{Target: w.target}, Values: map[string]v3api.PathValue{},
		Status: v3api.TransactionStatus{Phase: v3api.TransactionStatus_CHANGE,
			Change: v3api.TransactionChangeStatus{
				Commit: &v3api.TransactionPhaseStatus{State: v3api.TransactionPhaseStatus_PENDING},
				Apply:  &v3api.TransactionPhaseStatus{State: v3api.TransactionPhaseStatus_PENDING}}}}
	for p, v := range ch {
		tx.Values[p] = v3Value(p, v, 0)
	}
	if err := w.rawTx.Create(ctx, tx); err != nil {
		return err
	}
	// the values carry the index of their transaction (the controllers group re-pushed values by it)
	for p, pv := range tx.Values {
		pv.Index = tx.ID.Index
		tx.Values[p] = pv
	}
	return w.rawTx.Update(ctx, tx)
}

// requestRollback is spec/Transaction.tla RollbackChange(i): a committed change still in its Change phase is
// moved to the Rollback phase with both stages Pending.  Returns whether the request was admissible.
func (w *V3World) requestRollback(i int) (bool, error) {
	ctx, cancel := context.WithTimeout(context.Background(), 10*time.Second)
	defer cancel()
	tx, err := w.rawTx.Get(ctx, w.txID(i))
	if err != nil {
		if errors.IsNotFound(err) {
			return false, nil
		}
		return false, err
	}
	if tx.Status.Phase != v3api.TransactionStatus_CHANGE || tx.Status.Change.Commit == nil ||
		tx.Status.Change.Commit.State != v3api.TransactionPhaseStatus_COMPLETE {
		return false, nil
	}
	tx.Status.Phase = v3api.TransactionStatus_ROLLBACK
	tx.Status.Rollback.Commit = &v3api.TransactionPhaseStatus{State: v3api.TransactionPhaseStatus_PENDING}
	tx.Status.Rollback.Apply = &v3api.TransactionPhaseStatus{State: v3api.TransactionPhaseStatus_PENDING}
	if err := w.rawTx.UpdateStatus(ctx, tx); err != nil {
		return false, err
	}
	return true, nil
}

func (w *V3World) numTx() int {
	ctx, cancel := context.WithTimeout(context.Background(), 10*time.Second)
	defer cancel()
	l, err := w.rawTx.List(ctx)
	if err != nil {
		return 0
	}
	return len(l)
}

func reconcileAct(st V3Step, res v3Result) map[string]interface{} {
	act := map[string]interface{}{"k": st.K, "eff": res.Effects, "cut": st.Cut, "at": st.At}
	if st.K == "rtx" {
		act["i"] = st.I
	}
	if res.Err != "" {
		act["err"] = res.Err
	}
	if res.Panic != "" {
		act["panic"] = res.Panic
	}
	if res.Cut {
		act["died"] = true
	}
	if res.Requeue != 0 {
		act["rq"] = res.Requeue
	}
	mid := []map[string]interface{}{}
	for _, m := range st.Mid {
		r := map[string]interface{}{"k": m.K}
		if m.K == "rollback" {
			r["i"] = m.I
		}
		mid = append(mid, r)
	}
	act["mid"] = mid
	return act
}

// execInner runs a step nested inside another reconcile's store call (no trace line of its own: the enclosing
// step's line records the state after the whole composite)
func (w *V3World) execInner(st V3Step) {
	_ = w.exec(st, true)
}

func (w *V3World) exec(st V3Step, inner bool) map[string]interface{} {
	act := map[string]interface{}{"k": st.K}
	if st.I != 0 {
		act["i"] = st.I
	}
	switch st.K {
	case "append":
		if err := w.appendChange(st.Ch); err != nil {
			act["err"] = err.Error()
		}
		act["ch"] = st.Ch
	case "rollback":
		ok, err := w.requestRollback(st.I)
		act["ok"] = ok
		if err != nil {
			act["err"] = err.Error()
		}
	case "rtx", "rcfg", "rmast":
		if w.live && !inner {
			// the schedule's pick is a hint: the reconcile runs iff the real watchers have woken this object
			w.settle(3)
			if !w.take(st) {
				act = map[string]interface{}{"k": "skip", "of": st.K, "i": st.I}
				break
			}
		}
		res := w.reconcile(st)
		if w.live && !inner {
			w.after(st, res)
		}
		act = reconcileAct(st, res)
	case "connect":
		w.connSeq++
		if err := w.connect(fmt.Sprintf("c%d", w.connSeq)); err != nil {
			act["err"] = err.Error()
		}
	case "disconnect":
		for _, id := range w.connIDs() {
			w.disconnect(id)
		}
	case "devstop":
		// the target stops: it loses its running configuration and every connection to it
		for _, id := range w.connIDs() {
			w.disconnect(id)
		}
		w.dev.RestartEmpty()
		w.devUp = false
	case "devstart":
		w.devUp = true
	case "devfail":
		w.dev.FailNext(codes.Code(st.Code), st.Cnt)
		act["code"] = st.Code
		act["cnt"] = st.Cnt
	case "heal":
		w.devUp = true
		if len(w.connIDs()) == 0 {
			w.connSeq++
			if err := w.connect(fmt.Sprintf("c%d", w.connSeq)); err != nil {
				act["err"] = err.Error()
			}
		}
	case "drain":
		act = w.drain(st.Pol)
	case "wdrain":
		if w.live {
			act = w.wdrain(st.Pol)
		} else {
			act = w.drain(st.Pol)
		}
	}
	if inner {
		return nil
	}
	return act
}

// drain serves every object (mastership, configuration, every transaction) again and again until a whole pass
// has no effect: the fixed point the controllers reach when every wake-up is delivered.
func (w *V3World) drain(pol string) map[string]interface{} {
	act := map[string]interface{}{"k": "drain"}
	passes, total, overrun := 0, 0, false
	panics := []string{}
	for {
		passes++
		n := w.numTx()
		order := []V3Step{{K: "rmast"}, {K: "rcfg"}}
		idx := make([]int, 0, n)
		for i := 1; i <= n; i++ {
			idx = append(idx, i)
		}
		if pol == "newest" {
			sort.Sort(sort.Reverse(sort.IntSlice(idx)))
		}
		for _, i := range idx {
			order = append(order, V3Step{K: "rtx", I: i})
		}
		eff := 0
		for _, st := range order {
			res := w.reconcile(st)
			eff += res.Effects
			if res.Err != "" {
				eff++ // a reconcile that ended with an error is retried by the controller runtime: not a fixed point yet
			}
			if res.Panic != "" && len(panics) < 3 {
				panics = append(panics, fmt.Sprintf("%s %d: %s", st.K, st.I, res.Panic))
			}
			if res.Effects > 0 || res.Err != "" {
				a := reconcileAct(st, res)
				a["indrain"] = true
				w.emit(a)
			}
		}
		total += eff
		if eff == 0 {
			break
		}
		if passes >= 80 {
			overrun = true
			break
		}
	}
	act["passes"] = passes
	act["eff"] = total
	act["stable"] = !overrun
	if overrun {
		act["overrun"] = true
	}
	if len(panics) > 0 {
		act["panic"] = strings.Join(panics, "; ")
	}
	return act
}

// ---------------------------------------------------------------------------------------------
// projection

var v3PhaseState = map[v3api.TransactionPhaseStatus_State]string{
	v3api.TransactionPhaseStatus_PENDING: "Pending", v3api.TransactionPhaseStatus_IN_PROGRESS: "InProgress",
	v3api.TransactionPhaseStatus_COMPLETE: "Complete", v3api.TransactionPhaseStatus_ABORTED: "Aborted",
	v3api.TransactionPhaseStatus_CANCELED: "Canceled", v3api.TransactionPhaseStatus_FAILED: "Failed"}

func v3Stage(p *v3api.TransactionPhaseStatus) string {
	if p == nil {
		return "Nil"
	}
	return v3PhaseState[p.State]
}

func v3Vals(m map[string]v3api.PathValue) map[string]string {
	out := map[string]string{}
	for p, pv := range m {
		if pv.Deleted {
			out[p] = "<del>"
		} else {
			out[p] = string(pv.Value.Bytes)
		}
	}
	return out
}

func (w *V3World) snapshot(act map[string]interface{}) (map[string]interface{}, error) {
	ctx, cancel := context.WithTimeout(context.Background(), 10*time.Second)
	defer cancel()
	line := map[string]interface{}{"act": act}
	txs := []map[string]interface{}{}
	n := w.numTx()
	for i := 1; i <= n; i++ {
		tx, err := w.rawTx.Get(ctx, w.txID(i))
		if err != nil {
			return nil, fmt.Errorf("infra: get transaction %d: %v", i, err)
		}
		ph := "Change"
		if tx.Status.Phase == v3api.TransactionStatus_ROLLBACK {
			ph = "Rollback"
		}
		fail := ""
		if tx.Status.Change.Apply != nil && tx.Status.Change.Apply.Failure != nil {
			fail = tx.Status.Change.Apply.Failure.Type.String()
		}
		txs = append(txs, map[string]interface{}{"i": i, "phase": ph, "values": v3Vals(tx.Values),
			"cc": v3Stage(tx.Status.Change.Commit), "ca": v3Stage(tx.Status.Change.Apply), "cord": int(tx.Status.Change.Ordinal),
			"rc": v3Stage(tx.Status.Rollback.Commit), "ra": v3Stage(tx.Status.Rollback.Apply), "rord": int(tx.Status.Rollback.Ordinal),
			"rindex": int(tx.Status.Rollback.Index), "rvalues": v3Vals(tx.Status.Rollback.Values), "ver": int(tx.Version), "fail": fail})
	}
	line["txs"] = txs
	cfg, err := w.rawCfg.Get(ctx, v3api.ConfigurationID{Target: w.target})
	if err != nil {
		return nil, fmt.Errorf("infra: get configuration: %v", err)
	}
	state := map[v3api.ConfigurationStatus_State]string{v3api.ConfigurationStatus_UNKNOWN: "Unknown", v3api.ConfigurationStatus_SYNCHRONIZING: "Synchronizing",
		v3api.ConfigurationStatus_SYNCHRONIZED: "Synchronized", v3api.ConfigurationStatus_PERSISTED: "Persisted"}[cfg.Status.State]
	master, mterm := "", 0
	if cfg.Status.Mastership != nil {
		master, mterm = string(cfg.Status.Mastership.Master), int(cfg.Status.Mastership.Term)
	}
	line["cfg"] = map[string]interface{}{"state": state, "master": master, "mterm": mterm, "aterm": int(cfg.Applied.Term),
		"cindex": int(cfg.Committed.Index), "cchange": int(cfg.Committed.Change), "ctarget": int(cfg.Committed.Target),
		"cord": int(cfg.Committed.Ordinal), "crev": int(cfg.Committed.Revision), "cvalues": v3Vals(cfg.Committed.Values),
		"aindex": int(cfg.Applied.Index), "atarget": int(cfg.Applied.Target), "aord": int(cfg.Applied.Ordinal),
		"arev": int(cfg.Applied.Revision), "avalues": v3Vals(cfg.Applied.Values), "ver": int(cfg.Version)}
	if w.live {
		line["pending"] = w.pendingList()
	}
	line["conns"] = w.connIDs()
	line["nconn"] = w.connSeq
	vals, boot := w.dev.Snapshot()
	maxeid, fq := w.dev.arbState()
	line["dev"] = map[string]interface{}{"up": w.devUp, "vals": vals, "boot": boot, "maxeid": maxeid, "failq": fq}
	dl := []map[string]interface{}{}
	for _, r := range w.dev.takeLog() {
		dl = append(dl, map[string]interface{}{"conn": r.Conn, "eid": int(r.EID), "upd": r.Upd, "del": r.Del, "code": r.Code, "boot": r.Boot})
	}
	line["devlog"] = dl
	pl := []map[string]interface{}{}
	for _, c := range w.plugin.takeCalls() {
		pl = append(pl, map[string]interface{}{"leaves": c.Leaves, "valid": c.Valid})
	}
	line["plug"] = pl
	return line, nil
}

func (w *V3World) emit(act map[string]interface{}) {
	if w.emitErr != nil {
		return
	}
	line, err := w.snapshot(act)
	if err != nil {
		w.emitErr = err
		return
	}
	w.lines = append(w.lines, line)
}

// RunV3Scenario executes a behaviour and returns the recorded lines.
func RunV3Scenario(sc V3Scenario) ([]map[string]interface{}, error) {
	w, err := NewV3World(sc)
	if err != nil {
		return nil, fmt.Errorf("infra: %v", err)
	}
	defer w.Close()
	w.emit(map[string]interface{}{"k": "init"})
	for _, st := range sc.Steps {
		act := w.exec(st, false)
		w.emit(act)
		if w.emitErr != nil {
			break
		}
	}
	return w.lines, w.emitErr
}

// WriteV3Trace writes the lines as ndjson.
func WriteV3Trace(path string, lines []map[string]interface{}) error {
	f, err := os.Create(path)
	if err != nil {
		return err
	}
	defer f.Close()
	enc := json.NewEncoder(f)
	for _, l := range lines {
		if err := enc.Encode(l); err != nil {
			return err
		}
	}
	return nil
}

