package world

import (
	"context"
	"fmt"
	"net"
	"sort"
	"strings"
	"sync"

	"github.com/openconfig/gnmi/proto/gnmi"
	"github.com/openconfig/gnmi/proto/gnmi_ext"
	"google.golang.org/grpc"
	"google.golang.org/grpc/codes"
	"google.golang.org/grpc/metadata"
	"google.golang.org/grpc/status"
	"google.golang.org/grpc/test/bufconn"
)

// RejectPrefix marks a value the simulated device refuses: "REJECT-<grpc code number>".
const RejectPrefix = "REJECT-"

// DevReq is one southbound Set as the device saw it.
type DevReq struct {
	Target string            `json:"t"`
	Conn   string            `json:"conn"`
	EID    uint64            `json:"eid"`
	Upd    map[string]string `json:"upd"`
	Del    []string          `json:"del"`
	Code   int               `json:"code"` // gRPC code answered (0 = OK)
	Boot   int               `json:"boot"`
}

// Device is a simulated gNMI target: a leaf map with gNMI Set semantics.
type Device struct {
	gnmi.UnimplementedGNMIServer
	Target string

	mu        sync.Mutex
	values    map[string]string
	boot      int
	maxEID    uint64
	failNext  []codes.Code // scripted transient answers, consumed one per Set
	arbitrate bool
	log       []DevReq

	lis *bufconn.Listener
	srv *grpc.Server
}

func newDevice(target string) *Device {
	d := &Device{Target: target, values: map[string]string{}, arbitrate: true}
	d.lis = bufconn.Listen(1 << 20)
	d.srv = grpc.NewServer()
	gnmi.RegisterGNMIServer(d.srv, d)
	go func() { _ = d.srv.Serve(d.lis) }()
	return d
}

func (d *Device) stop() {
	d.srv.Stop()
	_ = d.lis.Close()
}

func (d *Device) dial(ctx context.Context, connID string) (*grpc.ClientConn, error) {
	return grpc.DialContext(ctx, "bufnet",
		grpc.WithContextDialer(func(ctx context.Context, _ string) (net.Conn, error) { return d.lis.DialContext(ctx) }),
		grpc.WithInsecure(),
		grpc.WithUnaryInterceptor(func(ctx context.Context, method string, req, reply interface{}, cc *grpc.ClientConn, invoker grpc.UnaryInvoker, opts ...grpc.CallOption) error {
			return invoker(metadata.AppendToOutgoingContext(ctx, "verif-conn", connID), method, req, reply, cc, opts...)
		}))
}

// RestartEmpty models a device reboot that loses its running configuration.
func (d *Device) RestartEmpty() {
	d.mu.Lock()
	d.values = map[string]string{}
	d.boot++
	d.maxEID = 0
	d.mu.Unlock()
}

func (d *Device) FailNext(code codes.Code, n int) {
	d.mu.Lock()
	for i := 0; i < n; i++ {
		d.failNext = append(d.failNext, code)
	}
	d.mu.Unlock()
}

func (d *Device) Snapshot() (map[string]string, int) {
	d.mu.Lock()
	defer d.mu.Unlock()
	m := make(map[string]string, len(d.values))
	for k, v := range d.values {
		m[k] = v
	}
	return m, d.boot
}

func (d *Device) arbState() (int, []int) {
	d.mu.Lock()
	defer d.mu.Unlock()
	fq := make([]int, 0, len(d.failNext))
	for _, c := range d.failNext {
		fq = append(fq, int(c))
	}
	return int(d.maxEID), fq
}

func (d *Device) takeLog() []DevReq {
	d.mu.Lock()
	defer d.mu.Unlock()
	l := d.log
	d.log = nil
	return l
}

func (d *Device) Capabilities(ctx context.Context, req *gnmi.CapabilityRequest) (*gnmi.CapabilityResponse, error) {
	return &gnmi.CapabilityResponse{GNMIVersion: "0.7.0"}, nil
}

func (d *Device) Get(ctx context.Context, req *gnmi.GetRequest) (*gnmi.GetResponse, error) {
	d.mu.Lock()
	defer d.mu.Unlock()
	paths := make([]string, 0, len(d.values))
	for p := range d.values {
		paths = append(paths, p)
	}
	sort.Strings(paths)
	n := &gnmi.Notification{}
	for _, p := range paths {
		n.Update = append(n.Update, &gnmi.Update{Path: strToPath(p), Val: &gnmi.TypedValue{Value: &gnmi.TypedValue_StringVal{StringVal: d.values[p]}}})
	}
	return &gnmi.GetResponse{Notification: []*gnmi.Notification{n}}, nil
}

func (d *Device) Set(ctx context.Context, req *gnmi.SetRequest) (*gnmi.SetResponse, error) {
	connID := ""
	if md, ok := metadata.FromIncomingContext(ctx); ok {
		if v := md.Get("verif-conn"); len(v) > 0 {
			connID = v[0]
		}
	}
	var eid uint64
	for _, e := range req.Extension {
		if ma, ok := e.Ext.(*gnmi_ext.Extension_MasterArbitration); ok && ma.MasterArbitration.GetElectionId() != nil {
			eid = ma.MasterArbitration.ElectionId.Low
		}
	}
	prefix := PathToStr(req.Prefix)
	if prefix == "/" {
		prefix = ""
	}
	rec := DevReq{Target: d.Target, Conn: connID, EID: eid, Upd: map[string]string{}, Del: []string{}}
	for _, p := range req.Delete {
		rec.Del = append(rec.Del, prefix+PathToStr(p))
	}
	sort.Strings(rec.Del)
	for _, u := range append(append([]*gnmi.Update{}, req.Replace...), req.Update...) {
		rec.Upd[prefix+PathToStr(u.Path)] = TypedValueToStr(u.Val)
	}

	d.mu.Lock()
	defer d.mu.Unlock()
	rec.Boot = d.boot
	code := codes.OK
	switch {
	case len(d.failNext) > 0:
		code = d.failNext[0]
		d.failNext = d.failNext[1:]
	case d.arbitrate && eid < d.maxEID:
		code = codes.PermissionDenied
	default:
		for _, v := range rec.Upd {
			if strings.HasPrefix(v, RejectPrefix) {
				var c int
				_, _ = fmt.Sscanf(v[len(RejectPrefix):], "%d", &c)
				code = codes.Code(c)
				break
			}
		}
	}
	rec.Code = int(code)
	d.log = append(d.log, rec)
	if code != codes.OK {
		return nil, status.Error(code, fmt.Sprintf("verif device %s answers %s", d.Target, code))
	}
	if eid > d.maxEID {
		d.maxEID = eid
	}
	for _, del := range rec.Del {
		for p := range d.values {
			if PathHasPrefix(p, del) {
				delete(d.values, p)
			}
		}
	}
	for p, v := range rec.Upd {
		d.values[p] = v
	}
	resp := &gnmi.SetResponse{Prefix: req.Prefix}
	return resp, nil
}

// ---- independent path helpers (deliberately not the code under test) ----

// PathToStr renders a gNMI path with sorted keys: /a/l[k=1]/x
func PathToStr(p *gnmi.Path) string {
	if p == nil || len(p.Elem) == 0 {
		return "/"
	}
	var sb strings.Builder
	for _, e := range p.Elem {
		sb.WriteString("/")
		sb.WriteString(e.Name)
		keys := make([]string, 0, len(e.Key))
		for k := range e.Key {
			keys = append(keys, k)
		}
		sort.Strings(keys)
		for _, k := range keys {
			sb.WriteString("[" + k + "=" + e.Key[k] + "]")
		}
	}
	return sb.String()
}

// SplitElems splits a textual path at '/' outside brackets.
func SplitElems(p string) []string {
	var out []string
	depth := 0
	cur := strings.Builder{}
	for _, r := range strings.TrimPrefix(p, "/") {
		switch {
		case r == '[':
			depth++
			cur.WriteRune(r)
		case r == ']':
			depth--
			cur.WriteRune(r)
		case r == '/' && depth == 0:
			out = append(out, cur.String())
			cur.Reset()
		default:
			cur.WriteRune(r)
		}
	}
	if cur.Len() > 0 {
		out = append(out, cur.String())
	}
	return out
}

func strToPath(p string) *gnmi.Path {
	path := &gnmi.Path{}
	for _, e := range SplitElems(p) {
		name := e
		keys := map[string]string{}
		if i := strings.Index(e, "["); i >= 0 {
			name = e[:i]
			rest := e[i:]
			for len(rest) > 0 && rest[0] == '[' {
				j := strings.Index(rest, "]")
				kv := rest[1:j]
				eq := strings.Index(kv, "=")
				keys[kv[:eq]] = kv[eq+1:]
				rest = rest[j+1:]
			}
		}
		pe := &gnmi.PathElem{Name: name}
		if len(keys) > 0 {
			pe.Key = keys
		}
		path.Elem = append(path.Elem, pe)
	}
	return path
}

// PathHasPrefix: is prefix an ancestor-or-self of p at path-element boundaries?
func PathHasPrefix(p, prefix string) bool {
	pe, qe := SplitElems(p), SplitElems(prefix)
	if len(qe) > len(pe) {
		return false
	}
	for i := range qe {
		if i == len(qe)-1 {
			// last element of the prefix may name a whole list (no keys) or an entry
			if pe[i] == qe[i] {
				continue
			}
			if !strings.Contains(qe[i], "[") && strings.HasPrefix(pe[i], qe[i]+"[") {
				continue
			}
			return false
		}
		if pe[i] != qe[i] {
			return false
		}
	}
	return true
}

func TypedValueToStr(v *gnmi.TypedValue) string {
	if v == nil {
		return "<nil>"
	}
	switch x := v.Value.(type) {
	case *gnmi.TypedValue_StringVal:
		return x.StringVal
	case *gnmi.TypedValue_IntVal:
		return fmt.Sprintf("int:%d", x.IntVal)
	case *gnmi.TypedValue_UintVal:
		return fmt.Sprintf("uint:%d", x.UintVal)
	case *gnmi.TypedValue_BoolVal:
		return fmt.Sprintf("bool:%v", x.BoolVal)
	case *gnmi.TypedValue_BytesVal:
		return fmt.Sprintf("bytes:%x", x.BytesVal)
	case *gnmi.TypedValue_JsonVal:
		return "json:" + string(x.JsonVal)
	case *gnmi.TypedValue_JsonIetfVal:
		return "jsonietf:" + string(x.JsonIetfVal)
	default:
		return fmt.Sprintf("%v", v)
	}
}
