package world

import (
	"context"
	"fmt"
	"sync"

	configapi "github.com/onosproject/onos-api/go/onos/config/v2"
	cfgstore "github.com/onosproject/onos-config/pkg/store/v2/configuration"
	propstore "github.com/onosproject/onos-config/pkg/store/v2/proposal"
	txstore "github.com/onosproject/onos-config/pkg/store/v2/transaction"
)

// ---------------------------------------------------------------------------------------------
// Store views. A view is what one actor sees of a real store: every call is guarded (a crashed
// actor can do nothing), every persisted effect passes the actor's gate, and every successful
// write is reported to the world (for the event barrier and the effect counters). Views add no
// semantics of their own: they call the real store and return what it returns.
// ---------------------------------------------------------------------------------------------

type txView struct {
	real  txstore.Store
	actor *Actor
	w     *World
	fwd   bool // Watch goes through a forwarder (controller watchers, handlers)
	h     *Handler
}

func (v *txView) Get(ctx context.Context, id configapi.TransactionID) (*configapi.Transaction, error) {
	if err := v.actor.readGuard(); err != nil {
		return nil, err
	}
	return v.real.Get(ctx, id)
}

func (v *txView) GetByIndex(ctx context.Context, index configapi.Index) (*configapi.Transaction, error) {
	if err := v.actor.readGuard(); err != nil {
		return nil, err
	}
	return v.real.GetByIndex(ctx, index)
}

func (v *txView) Create(ctx context.Context, tx *configapi.Transaction) error {
	if err := v.actor.gate("tx.Create", string(tx.ID)); err != nil {
		return err
	}
	err := v.real.Create(ctx, tx)
	if err == nil {
		v.w.noteWrite("tx", string(tx.ID), tx.Version)
		if v.h != nil {
			v.h.noteCreated(string(tx.ID), int(tx.Index))
		}
	}
	return err
}

func (v *txView) Update(ctx context.Context, tx *configapi.Transaction) error {
	if err := v.actor.gate("tx.Update", fmt.Sprint(tx.Index)); err != nil {
		return err
	}
	err := v.real.Update(ctx, tx)
	if err == nil {
		v.w.noteWrite("tx", string(tx.ID), tx.Version)
	}
	return err
}

func (v *txView) UpdateStatus(ctx context.Context, tx *configapi.Transaction) error {
	if err := v.actor.gate("tx.UpdateStatus", fmt.Sprint(tx.Index)); err != nil {
		return err
	}
	err := v.real.UpdateStatus(ctx, tx)
	if err == nil {
		v.w.noteWrite("tx", string(tx.ID), tx.Version)
	}
	return err
}

func (v *txView) List(ctx context.Context) ([]*configapi.Transaction, error) {
	if err := v.actor.readGuard(); err != nil {
		return nil, err
	}
	return v.real.List(ctx)
}

func (v *txView) Close(ctx context.Context) error { return nil }

func (v *txView) Watch(ctx context.Context, ch chan<- configapi.TransactionEvent, opts ...txstore.WatchOption) error {
	if v.h != nil {
		return v.h.watch(ctx, v.real, ch, opts...)
	}
	if err := v.actor.readGuard(); err != nil {
		return err
	}
	if !v.fwd {
		return v.real.Watch(ctx, ch, opts...)
	}
	// Controller watcher: all records, with replay.
	expectReplay := 0
	if l, err := v.real.List(ctx); err == nil {
		expectReplay = len(l)
	}
	mid := make(chan configapi.TransactionEvent)
	if err := v.real.Watch(ctx, mid, opts...); err != nil {
		return err
	}
	f := v.w.newForwarder("tx", expectReplay)
	go func() {
		defer v.w.dropForwarder(f)
		for {
			select {
			case ev, ok := <-mid:
				if !ok {
					close(ch)
					return
				}
				ch <- ev
				f.saw(string(ev.Transaction.ID), ev.Transaction.Version, ev.Type == configapi.TransactionEvent_REPLAYED)
			case n := <-f.inject:
				ch <- configapi.TransactionEvent{
					Type:        configapi.TransactionEvent_UPDATED,
					Transaction: configapi.Transaction{ID: configapi.TransactionID(barrierName(n)), Index: barrierIndex(n)},
				}
			}
		}
	}()
	return nil
}

var _ txstore.Store = &txView{}

type propView struct {
	real  propstore.Store
	actor *Actor
	w     *World
	fwd   bool
}

func (v *propView) Get(ctx context.Context, id configapi.ProposalID) (*configapi.Proposal, error) {
	if err := v.actor.readGuard(); err != nil {
		return nil, err
	}
	return v.real.Get(ctx, id)
}

func (v *propView) Create(ctx context.Context, p *configapi.Proposal) error {
	if err := v.actor.gate("prop.Create", string(p.ID)); err != nil {
		return err
	}
	err := v.real.Create(ctx, p)
	if err == nil {
		v.w.noteWrite("prop", string(p.ID), p.Version)
	}
	return err
}

func (v *propView) Update(ctx context.Context, p *configapi.Proposal) error {
	if err := v.actor.gate("prop.Update", string(p.ID)); err != nil {
		return err
	}
	err := v.real.Update(ctx, p)
	if err == nil {
		v.w.noteWrite("prop", string(p.ID), p.Version)
	}
	return err
}

func (v *propView) UpdateStatus(ctx context.Context, p *configapi.Proposal) error {
	if err := v.actor.gate("prop.UpdateStatus", string(p.ID)); err != nil {
		return err
	}
	err := v.real.UpdateStatus(ctx, p)
	if err == nil {
		v.w.noteWrite("prop", string(p.ID), p.Version)
	}
	return err
}

func (v *propView) List(ctx context.Context) ([]*configapi.Proposal, error) {
	if err := v.actor.readGuard(); err != nil {
		return nil, err
	}
	return v.real.List(ctx)
}

func (v *propView) Close(ctx context.Context) error { return nil }

func (v *propView) Watch(ctx context.Context, ch chan<- configapi.ProposalEvent, opts ...propstore.WatchOption) error {
	if err := v.actor.readGuard(); err != nil {
		return err
	}
	if !v.fwd {
		return v.real.Watch(ctx, ch, opts...)
	}
	expectReplay := 0
	if l, err := v.real.List(ctx); err == nil {
		expectReplay = len(l)
	}
	mid := make(chan configapi.ProposalEvent)
	if err := v.real.Watch(ctx, mid, opts...); err != nil {
		return err
	}
	f := v.w.newForwarder("prop", expectReplay)
	go func() {
		defer v.w.dropForwarder(f)
		for {
			select {
			case ev, ok := <-mid:
				if !ok {
					close(ch)
					return
				}
				ch <- ev
				f.saw(string(ev.Proposal.ID), ev.Proposal.Version, ev.Type == configapi.ProposalEvent_REPLAYED)
			case <-ctx.Done():
				// the proposal store never closes a watch channel; neither do we
				return
			case n := <-f.inject:
				ch <- configapi.ProposalEvent{
					Type: configapi.ProposalEvent_UPDATED,
					Proposal: configapi.Proposal{
						ID:               configapi.ProposalID(barrierName(n) + "-0"),
						TargetID:         configapi.TargetID(barrierName(n)),
						TransactionIndex: barrierIndex(n),
					},
				}
			}
		}
	}()
	return nil
}

var _ propstore.Store = &propView{}

type cfgView struct {
	real  cfgstore.Store
	actor *Actor
	w     *World
	fwd   bool
}

func (v *cfgView) Get(ctx context.Context, id configapi.ConfigurationID) (*configapi.Configuration, error) {
	if err := v.actor.readGuard(); err != nil {
		return nil, err
	}
	return v.real.Get(ctx, id)
}

func (v *cfgView) Create(ctx context.Context, c *configapi.Configuration) error {
	if err := v.actor.gate("cfg.Create", string(c.ID)); err != nil {
		return err
	}
	err := v.real.Create(ctx, c)
	if err == nil {
		v.w.noteWrite("cfg", string(c.ID), c.Version)
	}
	return err
}

func (v *cfgView) Update(ctx context.Context, c *configapi.Configuration) error {
	if err := v.actor.gate("cfg.Update", string(c.ID)); err != nil {
		return err
	}
	idx := c.Status.Committed.Index
	err := v.real.Update(ctx, c)
	if err == nil {
		v.w.noteWrite("cfg", string(c.ID), c.Version)
	}
	v.w.noteMerge(v.actor, string(c.TargetID), uint64(idx), err)
	return err
}

func (v *cfgView) UpdateStatus(ctx context.Context, c *configapi.Configuration) error {
	if err := v.actor.gate("cfg.UpdateStatus", string(c.ID)); err != nil {
		return err
	}
	err := v.real.UpdateStatus(ctx, c)
	if err == nil {
		v.w.noteWrite("cfg", string(c.ID), c.Version)
	}
	return err
}

func (v *cfgView) List(ctx context.Context) ([]*configapi.Configuration, error) {
	if err := v.actor.readGuard(); err != nil {
		return nil, err
	}
	return v.real.List(ctx)
}

func (v *cfgView) Close(ctx context.Context) error { return nil }

func (v *cfgView) Watch(ctx context.Context, ch chan<- configapi.ConfigurationEvent, opts ...cfgstore.WatchOption) error {
	if err := v.actor.readGuard(); err != nil {
		return err
	}
	if !v.fwd {
		return v.real.Watch(ctx, ch, opts...)
	}
	expectReplay := 0
	if l, err := v.real.List(ctx); err == nil {
		expectReplay = len(l)
	}
	mid := make(chan configapi.ConfigurationEvent)
	if err := v.real.Watch(ctx, mid, opts...); err != nil {
		return err
	}
	f := v.w.newForwarder("cfg", expectReplay)
	go func() {
		defer v.w.dropForwarder(f)
		for {
			select {
			case ev, ok := <-mid:
				if !ok {
					close(ch)
					return
				}
				ch <- ev
				f.saw(string(ev.Configuration.ID), ev.Configuration.Version, ev.Type == configapi.ConfigurationEvent_REPLAYED)
			case n := <-f.inject:
				ch <- configapi.ConfigurationEvent{
					Type: configapi.ConfigurationEvent_UPDATED,
					Configuration: configapi.Configuration{
						ID:       configapi.ConfigurationID(barrierName(n)),
						TargetID: configapi.TargetID(barrierName(n)),
					},
				}
			}
		}
	}()
	return nil
}

var _ cfgstore.Store = &cfgView{}

// ---------------------------------------------------------------------------------------------
// Forwarders and the event barrier
// ---------------------------------------------------------------------------------------------

const barrierPrefix = "__barrier__"

func barrierName(n int) string { return fmt.Sprintf("%s%d", barrierPrefix, n) }

const barrierIndexBase = configapi.Index(1) << 62

func barrierIndex(n int) configapi.Index { return barrierIndexBase + configapi.Index(n) }

type writeKey struct {
	key string
	ver uint64
}

// forwarder sits between a real store Watch stream and a real controller watcher.
type forwarder struct {
	kind    string // tx | prop | cfg
	w       *World
	h       *Handler // set for a northbound handler's private stream
	onlyKey string   // a handler only expects events of its own transaction
	inject  chan int

	mu           sync.Mutex
	cond         *sync.Cond
	expect       map[writeKey]bool // writes performed since this forwarder exists and not yet seen
	seenEarly    map[writeKey]bool // events seen before the writer reported the write
	expectReplay int
	sawReplay    int
	gone         bool
}

func (f *forwarder) saw(key string, ver uint64, replayed bool) {
	f.mu.Lock()
	if replayed {
		f.sawReplay++
	} else {
		k := writeKey{key, ver}
		if f.expect[k] {
			delete(f.expect, k)
		} else {
			f.seenEarly[k] = true
		}
	}
	f.cond.Broadcast()
	f.mu.Unlock()
}

func (f *forwarder) wrote(key string, ver uint64) {
	f.mu.Lock()
	k := writeKey{key, ver}
	if f.seenEarly[k] {
		delete(f.seenEarly, k)
	} else {
		f.expect[k] = true
	}
	f.mu.Unlock()
}
