package world

import (
	"context"
	"fmt"
	"math/rand"
	"os"
	"sort"
	"strconv"
	"strings"
	"sync"
	"time"

	"github.com/atomix/go-sdk/pkg/test"
	configapi "github.com/onosproject/onos-api/go/onos/config/v2"
	topoapi "github.com/onosproject/onos-api/go/onos/topo"
	connctl "github.com/onosproject/onos-config/pkg/controller/connection"
	ctlutils "github.com/onosproject/onos-config/pkg/controller/utils"
	cfgctl "github.com/onosproject/onos-config/pkg/controller/v2/configuration"
	mastctl "github.com/onosproject/onos-config/pkg/controller/v2/mastership"
	propctl "github.com/onosproject/onos-config/pkg/controller/v2/proposal"
	txctl "github.com/onosproject/onos-config/pkg/controller/v2/transaction"
	"github.com/onosproject/onos-config/pkg/northbound/admin"
	nbgnmi "github.com/onosproject/onos-config/pkg/northbound/gnmi/v2"
	"github.com/onosproject/onos-config/pkg/pluginregistry"
	cfgstore "github.com/onosproject/onos-config/pkg/store/v2/configuration"
	propstore "github.com/onosproject/onos-config/pkg/store/v2/proposal"
	txstore "github.com/onosproject/onos-config/pkg/store/v2/transaction"
	"github.com/onosproject/onos-lib-go/pkg/controller"
	"github.com/onosproject/onos-lib-go/pkg/logging"
)

func init() {
	_ = os.Setenv("POD_ID", "verif-node")
	logging.SetLevel(logging.FatalLevel)
}

// Options configure a world.
type Options struct {
	Targets      []string
	NoPlugin     map[string]bool // targets whose (type,version) has no model plugin
	Schema       []SchemaPath
	SetSizeLimit int
	Seed         int64
	PadDocs      int // if >0, an extra string leaf /a/c of this many bytes is... (unused: see Pad)
}

// World owns one simulated deployment: the Atomix cluster, topo, devices, plugin and the
// currently running onos-config "process" (real stores, reconcilers, watchers, servers).
type World struct {
	opt      Options
	atomix   *test.Client
	topo     *fakeTopo
	pool     *connPool
	devices  map[string]*Device
	plugin   *fakePlugin
	registry pluginregistry.PluginRegistry
	nodeID   topoapi.ID
	rng      *rand.Rand

	proc    *process
	gen     int
	obsTx   txstore.Store // observer stores: never crash, only used for snapshots
	obsProp propstore.Store
	obsCfg  cfgstore.Store

	mu           sync.Mutex
	forwarders   map[*forwarder]bool
	topoWatchers map[*topoWatcher]bool
	connWatchers map[*connWatcher]bool
	barrierN     int

	// per-step observation buffers
	stepEffects  []Gate
	stepMerges   []MergeRec
	stepDevTags  []DevTag
	totalEffects int
	verOrd       map[string]int // record key -> number of successful writes (normalised version)

	panics     []string // reconciles that panicked
	overrun    bool     // the last drain did not end
	handlers   map[string]*Handler
	hOrder     []string
	Trace      *Trace
	stepNo     int
	healN      int
	usedConn   map[string]bool
	cleanSince map[string]bool
}

// MergeRec is one configurations.Update call (the only caller is the proposal commit).
type MergeRec struct {
	T  string `json:"t"`
	I  int    `json:"i"`
	By string `json:"by"` // reconcile id that issued it
	OK bool   `json:"ok"`
}

// DevTag says which reconcile issued a southbound Set (in issue order per step).
type DevTag struct {
	T   string `json:"t"`
	Ctl string `json:"ctl"`
	ID  string `json:"id"`
}

type process struct {
	tx          txstore.Store
	prop        propstore.Store
	cfg         cfgstore.Store
	ctls        map[string]*ctl
	cord        []string
	actors      map[string]*Actor
	gnmi        *nbgnmi.Server
	admin       *admin.Server
	hActorViews map[string]*Actor
}

type ctl struct {
	name     string
	w        *World
	watchers []controller.Watcher
	mu       sync.Mutex
	cond     *sync.Cond
	pending  map[string]controller.ID
	order    []string
	barriers []int // last barrier seen per collector
	route    func(id controller.ID) (*Actor, controller.Reconciler)
}

func (c *ctl) add(id controller.ID) {
	k := idKey(id)
	c.mu.Lock()
	if _, ok := c.pending[k]; !ok {
		c.pending[k] = id
		c.order = append(c.order, k)
	}
	c.mu.Unlock()
}

func (c *ctl) take(k string) (controller.ID, bool) {
	c.mu.Lock()
	defer c.mu.Unlock()
	id, ok := c.pending[k]
	if !ok {
		return controller.ID{}, false
	}
	delete(c.pending, k)
	for i, o := range c.order {
		if o == k {
			c.order = append(c.order[:i], c.order[i+1:]...)
			break
		}
	}
	return id, true
}

func (c *ctl) keys() []string {
	c.mu.Lock()
	defer c.mu.Unlock()
	out := append([]string{}, c.order...)
	return out
}

func idKey(id controller.ID) string { return fmt.Sprint(id.Value) }

func barrierOf(id controller.ID) (int, bool) {
	switch v := id.Value.(type) {
	case configapi.Index:
		if v >= barrierIndexBase {
			return int(v - barrierIndexBase), true
		}
		return 0, false
	default:
		s := fmt.Sprint(v)
		if strings.HasPrefix(s, barrierPrefix) {
			rest := s[len(barrierPrefix):]
			end := 0
			for end < len(rest) && rest[end] >= '0' && rest[end] <= '9' {
				end++
			}
			n, _ := strconv.Atoi(rest[:end])
			return n, true
		}
		return 0, false
	}
}

// New builds a world with an empty log; no connection exists yet.
func New(opt Options) (*World, error) {
	if opt.Schema == nil {
		opt.Schema = DefaultSchema()
	}
	w := &World{
		opt:          opt,
		atomix:       test.NewClient(),
		topo:         newFakeTopo(),
		pool:         newConnPool(),
		devices:      map[string]*Device{},
		nodeID:       ctlutils.GetOnosConfigID(),
		rng:          rand.New(rand.NewSource(opt.Seed)),
		forwarders:   map[*forwarder]bool{},
		topoWatchers: map[*topoWatcher]bool{},
		connWatchers: map[*connWatcher]bool{},
		verOrd:       map[string]int{},
		handlers:     map[string]*Handler{},
		cleanSince:   map[string]bool{},
	}
	w.plugin = newFakePlugin(opt.Schema)
	w.registry = newRegistry(w.plugin)
	// the onos-config node entity (created by the node controller in production)
	node := &topoapi.Object{ID: w.nodeID, Type: topoapi.Object_ENTITY,
		Obj: &topoapi.Object_Entity{Entity: &topoapi.Entity{KindID: topoapi.ONOS_CONFIG}}}
	if err := w.topo.create(node); err != nil {
		return nil, err
	}
	for _, t := range opt.Targets {
		ent := &topoapi.Object{ID: topoapi.ID(t), Type: topoapi.Object_ENTITY,
			Obj: &topoapi.Object_Entity{Entity: &topoapi.Entity{KindID: "verif-device"}}}
		typ := ModelType
		if opt.NoPlugin[t] {
			typ = "nomodel"
		}
		_ = ent.SetAspect(&topoapi.Configurable{Type: typ, Version: ModelVersion, Target: t, Address: "bufnet"})
		if err := w.topo.create(ent); err != nil {
			return nil, err
		}
		w.devices[t] = newDevice(t)
	}
	var err error
	if w.obsTx, err = txstore.NewAtomixStore(w.atomix); err != nil {
		return nil, err
	}
	if w.obsProp, err = propstore.NewAtomixStore(w.atomix); err != nil {
		return nil, err
	}
	if w.obsCfg, err = cfgstore.NewAtomixStore(w.atomix); err != nil {
		return nil, err
	}
	if err := w.startProcess(); err != nil {
		return nil, err
	}
	return w, nil
}

func (w *World) rawStores() (txstore.Store, propstore.Store, cfgstore.Store) {
	return w.obsTx, w.obsProp, w.obsCfg
}

// Close releases everything.
func (w *World) Close() {
	if w.proc != nil {
		if err := w.Crash(); err != nil {
			fmt.Fprintln(os.Stderr, "close:", err)
		}
	}
	for _, d := range w.devices {
		d.stop()
	}
	done := make(chan struct{})
	go func() { w.atomix.Close(); close(done) }()
	select {
	case <-done:
	case <-time.After(5 * time.Second):
	}
}

func (w *World) cfgID(t string) configapi.ConfigurationID {
	typ := ModelType
	if w.opt.NoPlugin[t] {
		typ = "nomodel"
	}
	return cfgstore.NewID(configapi.TargetID(t), configapi.TargetType(typ), ModelVersion)
}

func (w *World) targetOfCfgID(id string) string {
	for _, t := range w.opt.Targets {
		if string(w.cfgID(t)) == id {
			return t
		}
	}
	return id
}

// ---------------------------------------------------------------------------------------------
// process start / crash
// ---------------------------------------------------------------------------------------------

func (w *World) startProcess() error {
	tx, err := txstore.NewAtomixStore(w.atomix)
	if err != nil {
		return err
	}
	prop, err := propstore.NewAtomixStore(w.atomix)
	if err != nil {
		return err
	}
	cfg, err := cfgstore.NewAtomixStore(w.atomix)
	if err != nil {
		return err
	}
	p := &process{tx: tx, prop: prop, cfg: cfg, ctls: map[string]*ctl{}, actors: map[string]*Actor{}}
	w.proc = p
	w.gen++

	actor := func(name string) *Actor {
		if a, ok := p.actors[name]; ok {
			return a
		}
		a := newActor(w, name)
		p.actors[name] = a
		return a
	}
	txv := func(a *Actor, fwd bool) txstore.Store { return &txView{real: tx, actor: a, w: w, fwd: fwd} }
	propv := func(a *Actor, fwd bool) propstore.Store { return &propView{real: prop, actor: a, w: w, fwd: fwd} }
	cfgv := func(a *Actor, fwd bool) cfgstore.Store { return &cfgView{real: cfg, actor: a, w: w, fwd: fwd} }
	topov := func(a *Actor) *topoView { return &topoView{t: w.topo, actor: a, w: w} }
	connv := func(a *Actor) *connView { return &connView{p: w.pool, actor: a, w: w} }

	mk := func(name string, watchers []controller.Watcher, route func(id controller.ID) (*Actor, controller.Reconciler)) {
		c := &ctl{name: name, w: w, watchers: watchers, pending: map[string]controller.ID{}, route: route}
		c.cond = sync.NewCond(&c.mu)
		c.barriers = make([]int, len(watchers))
		p.ctls[name] = c
		p.cord = append(p.cord, name)
	}

	// watcher-side actors never gate; they only carry the dead flag
	wa := actor("watchers")

	txA := actor("tx")
	txR := txctl.NewReconcilerForVerif(txv(txA, false), propv(txA, false))
	mk("tx", txctl.NewWatchersForVerif(txv(wa, true), propv(wa, true)),
		func(id controller.ID) (*Actor, controller.Reconciler) { return txA, txR })

	propRs := map[string]controller.Reconciler{}
	mk("prop", propctl.NewWatchersForVerif(propv(wa, true), cfgv(wa, true)),
		func(id controller.ID) (*Actor, controller.Reconciler) {
			pid := fmt.Sprint(id.Value)
			t := pid
			if i := strings.LastIndex(pid, "-"); i >= 0 {
				t = pid[:i]
			}
			a := actor("prop:" + t)
			r, ok := propRs[t]
			if !ok {
				r = propctl.NewReconcilerForVerif(topov(a), connv(a), propv(a, false), cfgv(a, false), w.registry)
				propRs[t] = r
			}
			return a, r
		})

	cfgA := actor("cfg")
	cfgR := cfgctl.NewReconcilerForVerif(topov(cfgA), connv(cfgA), cfgv(cfgA, false))
	mk("cfg", cfgctl.NewWatchersForVerif(topov(wa), cfgv(wa, true)),
		func(id controller.ID) (*Actor, controller.Reconciler) { return cfgA, cfgR })

	mastA := actor("mast")
	mastR := mastctl.NewReconcilerForVerif(topov(mastA), cfgv(mastA, false))
	mk("mast", mastctl.NewWatchersForVerif(topov(wa), cfgv(wa, true)),
		func(id controller.ID) (*Actor, controller.Reconciler) { return mastA, mastR })

	connA := actor("conn")
	connR := connctl.NewReconcilerForVerif(topov(connA), connv(connA))
	mk("conn", connctl.NewWatchersForVerif(topov(wa), connv(wa)),
		func(id controller.ID) (*Actor, controller.Reconciler) { return connA, connR })

	// start the real watchers; collectors move IDs into the work sets
	for _, name := range p.cord {
		c := p.ctls[name]
		for i, wt := range c.watchers {
			ch := make(chan controller.ID)
			if err := wt.Start(ch); err != nil {
				return fmt.Errorf("infra: starting %s watcher %d: %v", name, i, err)
			}
			go func(c *ctl, i int, ch chan controller.ID) {
				for id := range ch {
					if n, ok := barrierOf(id); ok {
						c.mu.Lock()
						if n > c.barriers[i] {
							c.barriers[i] = n
						}
						c.cond.Broadcast()
						c.mu.Unlock()
						continue
					}
					c.add(id)
				}
			}(c, i, ch)
		}
	}
	return w.settle()
}

// Crash stops the process at this instant: paused reconciles never perform their pending
// effect, all volatile state (work sets, watchers, connections, handlers) is lost.
func (w *World) Crash() error {
	p := w.proc
	if p == nil {
		return nil
	}
	for _, a := range p.actors {
		if err := a.kill(); err != nil {
			return err
		}
	}
	for _, hn := range w.hOrder {
		h := w.handlers[hn]
		if !h.finished() {
			h.lose()
		}
	}
	for _, name := range p.cord {
		for _, wt := range p.ctls[name].watchers {
			wt.Stop()
		}
	}
	for _, id := range w.pool.ids() {
		w.pool.remove(id)
	}
	w.proc = nil
	// wait until every forwarder / topo watcher / conn watcher of the dead process has gone
	deadline := time.Now().Add(InfraTimeout)
	for {
		w.mu.Lock()
		n := 0
		for f := range w.forwarders {
			if f.h == nil {
				n++
			}
		}
		n += len(w.topoWatchers) + len(w.connWatchers)
		w.mu.Unlock()
		if n == 0 {
			break
		}
		if time.Now().After(deadline) {
			w.mu.Lock()
			desc := fmt.Sprintf("topo=%d conn=%d fwd:", len(w.topoWatchers), len(w.connWatchers))
			for f := range w.forwarders {
				desc += " " + f.kind
			}
			w.mu.Unlock()
			return fmt.Errorf("infra: %d watchers of the crashed process did not stop (%s)", n, desc)
		}
		time.Sleep(time.Millisecond)
	}
	return nil
}

// Restart starts a new process on the same persistent state.
func (w *World) Restart() error {
	if w.proc != nil {
		return fmt.Errorf("restart of a running process")
	}
	return w.startProcess()
}

// ---------------------------------------------------------------------------------------------
// bookkeeping called from views
// ---------------------------------------------------------------------------------------------

func (w *World) countEffect(a *Actor, op, key string) {
	w.mu.Lock()
	w.stepEffects = append(w.stepEffects, Gate{Op: op, Key: key})
	w.totalEffects++
	w.cleanSince = map[string]bool{}
	w.mu.Unlock()
}

func (w *World) noteWrite(kind, key string, ver uint64) {
	w.mu.Lock()
	w.verOrd[kind+"/"+key]++
	fs := make([]*forwarder, 0, len(w.forwarders))
	for f := range w.forwarders {
		if f.kind == kind && (f.onlyKey == "" || f.onlyKey == key) {
			fs = append(fs, f)
		}
	}
	w.mu.Unlock()
	for _, f := range fs {
		f.wrote(key, ver)
	}
}

func (w *World) noteMerge(a *Actor, t string, idx uint64, err error) {
	w.mu.Lock()
	by := ""
	if a != nil {
		by = a.CurID
	}
	w.stepMerges = append(w.stepMerges, MergeRec{T: t, I: int(idx), By: by, OK: err == nil})
	w.mu.Unlock()
}

func (w *World) noteDevSet(a *Actor, t string, err error) {
	w.mu.Lock()
	w.stepDevTags = append(w.stepDevTags, DevTag{T: t, Ctl: a.CurCtl, ID: a.CurID})
	w.mu.Unlock()
}

func (w *World) newForwarder(kind string, expectReplay int) *forwarder {
	f := &forwarder{kind: kind, w: w, inject: make(chan int), expect: map[writeKey]bool{}, seenEarly: map[writeKey]bool{}, expectReplay: expectReplay}
	f.cond = sync.NewCond(&f.mu)
	w.mu.Lock()
	w.forwarders[f] = true
	w.mu.Unlock()
	return f
}

func (w *World) dropForwarder(f *forwarder) {
	w.mu.Lock()
	delete(w.forwarders, f)
	w.mu.Unlock()
	f.mu.Lock()
	f.gone = true
	f.cond.Broadcast()
	f.mu.Unlock()
}

func (w *World) registerTopoWatcher(t *topoWatcher) {
	w.mu.Lock()
	w.topoWatchers[t] = true
	w.mu.Unlock()
}
func (w *World) dropTopoWatcher(t *topoWatcher) {
	w.mu.Lock()
	delete(w.topoWatchers, t)
	w.mu.Unlock()
}
func (w *World) registerConnWatcher(c *connWatcher) {
	w.mu.Lock()
	w.connWatchers[c] = true
	w.mu.Unlock()
}
func (w *World) dropConnWatcher(c *connWatcher) {
	w.mu.Lock()
	delete(w.connWatchers, c)
	w.mu.Unlock()
}

// ---------------------------------------------------------------------------------------------
// the event barrier
// ---------------------------------------------------------------------------------------------

// settle waits until every store event caused so far has been mapped to controller IDs by the
// real watchers and every waiting northbound handler has consumed the events of its transaction.
func (w *World) settle() error {
	if w.proc == nil {
		return nil
	}
	w.mu.Lock()
	fs := make([]*forwarder, 0, len(w.forwarders))
	for f := range w.forwarders {
		fs = append(fs, f)
	}
	tws := make([]*topoWatcher, 0, len(w.topoWatchers))
	for t := range w.topoWatchers {
		tws = append(tws, t)
	}
	cws := make([]*connWatcher, 0, len(w.connWatchers))
	for c := range w.connWatchers {
		cws = append(cws, c)
	}
	w.barrierN++
	n := w.barrierN
	w.mu.Unlock()

	// 1. all store events of all writes have reached their forwarders
	for _, f := range fs {
		if err := f.waitCaughtUp(); err != nil {
			if f.h != nil {
				// An event the store owed a northbound handler's own watch did not arrive: that is an observation
				// about the store (the handler may wait for ever), not a failure of the harness.
				f.h.mu.Lock()
				f.h.starved = true
				f.h.mu.Unlock()
				f.mu.Lock()
				f.expect = map[writeKey]bool{}
				f.gone = false
				f.mu.Unlock()
				continue
			}
			return err
		}
	}
	// 2. sentinels through every controller watcher
	for _, f := range fs {
		if f.h != nil {
			continue
		}
		select {
		case f.inject <- n:
		case <-time.After(InfraTimeout):
			return fmt.Errorf("infra: forwarder %s does not take the sentinel", f.kind)
		}
	}
	for _, tw := range tws {
		for _, ev := range topoSentinels(n, w.nodeID) {
			tw.q <- ev
		}
	}
	for _, cw := range cws {
		cw.q <- &sentinelConn{id: barrierName(n)}
	}
	for _, name := range w.proc.cord {
		c := w.proc.ctls[name]
		if err := c.waitBarrier(n); err != nil {
			return err
		}
	}
	// 3. waiting handlers
	for _, hn := range w.hOrder {
		h := w.handlers[hn]
		if err := h.settle(); err != nil {
			return err
		}
	}
	return nil
}

// HandlerEventTimeout bounds the wait for an event on a northbound handler's own watch.
var HandlerEventTimeout = 20 * time.Second

func (f *forwarder) waitCaughtUp() error {
	timeout := InfraTimeout
	if f.h != nil {
		timeout = HandlerEventTimeout
	}
	done := make(chan struct{})
	go func() {
		f.mu.Lock()
		for !f.gone && (len(f.expect) > 0 || f.sawReplay < f.expectReplay) {
			f.cond.Wait()
		}
		f.mu.Unlock()
		close(done)
	}()
	select {
	case <-done:
		return nil
	case <-time.After(timeout):
		f.mu.Lock()
		defer f.mu.Unlock()
		f.gone = true // let the waiter goroutine end
		f.cond.Broadcast()
		return fmt.Errorf("infra: %s watcher stream did not deliver %d expected events (replay %d/%d)", f.kind, len(f.expect), f.sawReplay, f.expectReplay)
	}
}

func (c *ctl) waitBarrier(n int) error {
	done := make(chan struct{})
	giveUp := false
	go func() {
		c.mu.Lock()
		for !giveUp {
			ok := true
			for _, b := range c.barriers {
				if b < n {
					ok = false
				}
			}
			if ok {
				break
			}
			c.cond.Wait()
		}
		c.mu.Unlock()
		close(done)
	}()
	select {
	case <-done:
		return nil
	case <-time.After(InfraTimeout):
		c.mu.Lock()
		giveUp = true
		c.cond.Broadcast()
		c.mu.Unlock()
		return fmt.Errorf("infra: barrier %d did not pass the watchers of controller %s (%v)", n, c.name, c.barriers)
	}
}

// ---------------------------------------------------------------------------------------------
// scheduler steps
// ---------------------------------------------------------------------------------------------

type reconcileOutcome struct {
	res controller.Result
	err error
}

// Deliver starts Reconcile(id) on controller c if id is pending there. With fine=false the
// reconcile runs to completion; with fine=true it pauses before its first persisted effect.
// It returns whether the pick was executed.
func (w *World) Deliver(cname, key string, fine bool) (bool, error) {
	if w.proc == nil {
		return false, nil
	}
	c, ok := w.proc.ctls[cname]
	if !ok {
		return false, fmt.Errorf("unknown controller %q", cname)
	}
	c.mu.Lock()
	id, ok := c.pending[key]
	c.mu.Unlock()
	if !ok {
		return false, nil
	}
	a, r := c.route(id)
	if a.isBusy() {
		return false, nil
	}
	c.take(key)
	return true, w.runReconcile(c, a, r, id, fine)
}

// Force reconciles an id whether or not it is pending (quiescence probe, spurious deliveries).
func (w *World) Force(cname string, id controller.ID) error {
	c := w.proc.ctls[cname]
	a, r := c.route(id)
	if a.isBusy() {
		return fmt.Errorf("force on busy actor %s", a.Name)
	}
	return w.runReconcile(c, a, r, id, false)
}

func (w *World) runReconcile(c *ctl, a *Actor, r controller.Reconciler, id controller.ID, fine bool) error {
	a.mu.Lock()
	a.fine = fine
	a.CurCtl = c.name
	a.CurID = idKey(id)
	if c.name == "cfg" || c.name == "mast" {
		a.CurID = w.targetOfCfgID(a.CurID)
	}
	a.mu.Unlock()
	before := w.totalEffectsNow()
	out := &reconcileOutcome{}
	err := a.start(func() {
		out.res, out.err = r.Reconcile(id)
	})
	if err != nil {
		return err
	}
	a.onDone = func() {
		if out.err != nil {
			c.add(id)
		} else if out.res.Requeue.Value != nil {
			c.add(out.res.Requeue)
		}
		if w.totalEffectsNow() == before {
			w.mu.Lock()
			w.cleanSince[c.name+"/"+idKey(id)] = true
			w.mu.Unlock()
		}
	}
	if !a.isBusy() {
		a.onDone()
		a.onDone = nil
	}
	return nil
}

func (w *World) notePanic(p string) {
	w.mu.Lock()
	w.panics = append(w.panics, p)
	w.mu.Unlock()
}

// TakePanics returns (and forgets) the reconciles that panicked since the last call.
func (w *World) TakePanics() []string {
	w.mu.Lock()
	defer w.mu.Unlock()
	p := w.panics
	w.panics = nil
	return p
}

func (w *World) totalEffectsNow() int {
	w.mu.Lock()
	defer w.mu.Unlock()
	return w.totalEffects
}

// Exec lets a paused actor perform its pending effect.
func (w *World) Exec(actorName string) (bool, error) {
	if w.proc == nil {
		return false, nil
	}
	a, ok := w.proc.actors[actorName]
	if !ok || a.pausedGate() == nil {
		return false, nil
	}
	if err := a.release(); err != nil {
		return false, err
	}
	if !a.isBusy() && a.onDone != nil {
		a.onDone()
		a.onDone = nil
	}
	return true, nil
}

// Quiescent: no pending work, nothing in flight.
func (w *World) Quiescent() bool {
	if w.proc == nil {
		return true
	}
	for _, a := range w.proc.actors {
		if a.isBusy() {
			return false
		}
	}
	for _, name := range w.proc.cord {
		if len(w.proc.ctls[name].keys()) > 0 {
			return false
		}
	}
	return true
}

type pick struct {
	ctl, key, actor string
	exec            bool
}

func (w *World) enabledPicks() []pick {
	var out []pick
	if w.proc == nil {
		return out
	}
	names := make([]string, 0, len(w.proc.actors))
	for n := range w.proc.actors {
		names = append(names, n)
	}
	sort.Strings(names)
	for _, n := range names {
		if w.proc.actors[n].pausedGate() != nil {
			out = append(out, pick{actor: n, exec: true})
		}
	}
	for _, cn := range w.proc.cord {
		c := w.proc.ctls[cn]
		for _, k := range c.keys() {
			c.mu.Lock()
			id := c.pending[k]
			c.mu.Unlock()
			a, _ := c.route(id)
			if !a.isBusy() {
				out = append(out, pick{ctl: cn, key: k})
			}
		}
	}
	return out
}

// Drain runs the real work sets fairly (seeded) until nothing is pending, or until every
// pending id has been reconciled without any effect since the last effect (a pure re-queue
// spin, which is a fixed point as far as persisted state is concerned). Every pick is a
// recorded step. It reports whether a spin was left behind.
func (w *World) Drain(maxSteps int) (spin bool, err error) { return w.DrainWith(maxSteps, "") }

// pickRank orders pending work for the deterministic drain policies: connection, mastership and configuration
// reconciles first, then transactions and proposals by log index - "newest": highest index first (work that has been
// pending since a restart is served last), "oldest": lowest index first.
func pickRank(p pick, pol string) (int, int) {
	if p.exec {
		return 0, 0
	}
	idx := 0
	s := p.key
	if i := strings.LastIndex(s, "-"); i >= 0 && p.ctl == "prop" {
		s = s[i+1:]
	}
	fmt.Sscanf(s, "%d", &idx)
	if pol == "newest" {
		idx = -idx
	}
	switch p.ctl {
	case "conn":
		return 1, 0
	case "mast":
		return 2, 0
	case "cfg":
		return 3, 0
	case "prop":
		return 4, idx
	default:
		return 5, idx
	}
}

// DrainWith is Drain with a policy for the order in which pending work is served.
func (w *World) DrainWith(maxSteps int, pol string) (spin bool, err error) {
	for n := 0; n < maxSteps; n++ {
		picks := w.enabledPicks()
		if len(picks) == 0 {
			return false, nil
		}
		// fixed-point detection
		allClean := true
		for _, p := range picks {
			if p.exec {
				allClean = false
				break
			}
			w.mu.Lock()
			clean := w.cleanSince[p.ctl+"/"+p.key]
			w.mu.Unlock()
			if !clean {
				allClean = false
				break
			}
		}
		if allClean {
			return true, nil
		}
		// prefer picks that are not known to be clean, seeded choice among them
		cand := picks[:0:0]
		for _, p := range picks {
			w.mu.Lock()
			clean := !p.exec && w.cleanSince[p.ctl+"/"+p.key]
			w.mu.Unlock()
			if !clean {
				cand = append(cand, p)
			}
		}
		p := cand[w.rng.Intn(len(cand))]
		if pol == "newest" || pol == "oldest" {
			for _, c := range cand {
				a1, b1 := pickRank(c, pol)
				a0, b0 := pickRank(p, pol)
				if a1 < a0 || (a1 == a0 && b1 < b0) || (a1 == a0 && b1 == b0 && c.key < p.key) {
					p = c
				}
			}
		}
		if p.exec {
			if err := w.Step(Step{K: "exec", A: p.actor, Auto: true}); err != nil {
				return false, err
			}
		} else {
			id := p.key
			if p.ctl == "cfg" || p.ctl == "mast" {
				id = w.targetOfCfgID(id)
			}
			if err := w.Step(Step{K: "run", C: p.ctl, ID: id, Auto: true}); err != nil {
				return false, err
			}
		}
	}
	// The real controllers keep performing effects for ever: an observation (the drain line says so), not a failure
	// of the harness.
	w.overrun = true
	return false, nil
}

// Probe is the real-code form of "quiescent is a fixed point": reconcile every transaction,
// proposal and configuration once more and report the effects that causes.
func (w *World) Probe() (int, []string, error) {
	if w.proc == nil {
		return 0, nil, nil
	}
	ctx := context.Background()
	before := w.totalEffectsNow()
	var which []string
	txs, err := w.proc.tx.List(ctx)
	if err != nil {
		return 0, nil, err
	}
	sort.Slice(txs, func(i, j int) bool { return txs[i].Index < txs[j].Index })
	try := func(c string, id controller.ID) error {
		b := w.totalEffectsNow()
		if err := w.Force(c, id); err != nil {
			return err
		}
		if w.totalEffectsNow() != b {
			which = append(which, c+"/"+idKey(id))
		}
		sid := idKey(id)
		if c == "cfg" || c == "mast" {
			sid = w.targetOfCfgID(sid)
		}
		return w.record(Step{K: "force", C: c, ID: sid, Auto: true}, true)
	}
	for _, t := range txs {
		if err := try("tx", controller.NewID(t.Index)); err != nil {
			return 0, nil, err
		}
	}
	props, err := w.proc.prop.List(ctx)
	if err != nil {
		return 0, nil, err
	}
	sort.Slice(props, func(i, j int) bool { return props[i].ID < props[j].ID })
	for _, p := range props {
		if err := try("prop", controller.NewID(p.ID)); err != nil {
			return 0, nil, err
		}
	}
	cfgs, err := w.proc.cfg.List(ctx)
	if err != nil {
		return 0, nil, err
	}
	sort.Slice(cfgs, func(i, j int) bool { return cfgs[i].ID < cfgs[j].ID })
	for _, c := range cfgs {
		if err := try("mast", controller.NewID(c.ID)); err != nil {
			return 0, nil, err
		}
		if err := try("cfg", controller.NewID(c.ID)); err != nil {
			return 0, nil, err
		}
	}
	return w.totalEffectsNow() - before, which, nil
}

// ---------------------------------------------------------------------------------------------
// environment
// ---------------------------------------------------------------------------------------------

// ConnUp establishes a connection (with a fresh id) to the device of target t.
func (w *World) ConnUp(t, id string) error {
	if w.proc == nil {
		return nil
	}
	d, ok := w.devices[t]
	if !ok {
		return fmt.Errorf("no device %s", t)
	}
	return w.pool.add(w, id, d)
}

// ConnDown drops a connection.
func (w *World) ConnDown(id string) { w.pool.remove(id) }

// Device returns the simulated device of a target.
func (w *World) Device(t string) *Device { return w.devices[t] }
