package world

import (
	"fmt"
	"testing"
	"time"
)

func summarize(l Line) string {
	s := fmt.Sprintf("%3d %-8s %-4s %-8s done=%v q=%v eff=%d", l.N, l.Act.K, l.Act.C, l.Act.ID+l.Act.A+l.Act.H, l.Done, l.Q, len(l.Effects))
	for _, t := range l.Txs {
		s += fmt.Sprintf(" tx%d[%s %v %s]", t.I, t.State, t.Ph, t.Fail)
	}
	for id, p := range l.Props {
		s += fmt.Sprintf(" p%s[%v p%d n%d]", id, p.Ph, p.Prev, p.Next)
	}
	for t, c := range l.Cfgs {
		s += fmt.Sprintf(" c%s[i%d p%d c%d a%d %s m=%s t%d/%d %v]", t, c.Index, c.Proposed, c.Committed, c.Applied, c.State, c.Master, c.Term, c.ATerm, c.Values)
	}
	for _, d := range l.DevLog {
		s += fmt.Sprintf(" DEV{%s %s eid%d upd%v del%v code%d}", d.Ctl, d.ID, d.EID, d.Upd, d.Del, d.Code)
	}
	for n, h := range l.H {
		s += fmt.Sprintf(" H%s[%s tx%d ok=%v code=%d %v]", n, h.St, h.Tx, h.OK, h.Code, h.Results)
	}
	if l.Obs {
		s += fmt.Sprintf(" GET%v", l.Get)
	}
	if l.Act.K == "probe" {
		s += fmt.Sprintf(" PROBE%v", l.Probe)
	}
	return s
}

func TestHappyPath(t *testing.T) {
	s := Scenario{Targets: []string{"t1"}, Seed: 1, Steps: []Step{
		{K: "connup", T: "t1", Conn: "c1"},
		{K: "drain"},
		{K: "set", H: "h1", Ch: map[string]map[string]string{"t1": {"/a/b": "v1", "/a/c": "v2"}}},
		{K: "drain"},
		{K: "observe"},
		{K: "probe"},
	}}
	t0 := time.Now()
	tr, err := RunScenario(s)
	fmt.Println("elapsed", time.Since(t0))
	if tr != nil {
		for _, l := range tr.Lines {
			fmt.Println(summarize(l))
		}
	}
	if err != nil {
		t.Fatal(err)
	}
}
