package world

import (
	"fmt"
	"sync"
	"time"

	"github.com/onosproject/onos-lib-go/pkg/errors"
)

// InfraTimeout bounds every wait of the scheduler on real goroutines. Its expiry is an
// infrastructure failure (exit 2), never a property verdict, except where a caller explicitly
// treats "did not return" as the observation (handlers after quiescence).
var InfraTimeout = 20 * time.Second

// Gate describes the persisted effect an actor is about to perform.
type Gate struct {
	Op  string `json:"op"`  // e.g. "tx.UpdateStatus", "cfg.Update", "dev.Set", "topo.Create"
	Key string `json:"key"` // record key
}

type yieldMsg struct {
	gate *Gate
	done bool
}

// Actor is one sequential thread of the modelled process: a controller partition or a
// northbound handler. All its store/device effects pass through gate().
type Actor struct {
	Name string
	w    *World

	mu     sync.Mutex
	dead   bool // process crashed: every later store call fails, no effect
	fine   bool // pause before every persisted effect
	paused *Gate
	busy   bool

	yield  chan yieldMsg
	resume chan struct{}

	// what the actor is doing (for tagging device requests and the trace)
	CurCtl string
	CurID  string

	onDone func() // applied by the scheduler when the current reconcile returns
}

func newActor(w *World, name string) *Actor {
	return &Actor{Name: name, w: w, yield: make(chan yieldMsg), resume: make(chan struct{})}
}

func (a *Actor) isDead() bool {
	a.mu.Lock()
	defer a.mu.Unlock()
	return a.dead
}

var errCrashed = errors.NewUnavailable("verif: process crashed")

// readGuard is called by every read of a store view.
func (a *Actor) readGuard() error {
	if a == nil {
		return nil
	}
	if a.isDead() {
		return errCrashed
	}
	return nil
}

// gate is called (on the actor's goroutine) before every persisted effect.
func (a *Actor) gate(op, key string) error {
	if a == nil {
		return nil
	}
	a.mu.Lock()
	if a.dead {
		a.mu.Unlock()
		return errCrashed
	}
	fine := a.fine
	a.mu.Unlock()
	if fine {
		g := &Gate{Op: op, Key: key}
		a.yield <- yieldMsg{gate: g}
		<-a.resume
		if a.isDead() {
			return errCrashed
		}
	}
	a.w.countEffect(a, op, key)
	return nil
}

// start runs fn on a fresh goroutine as this actor and waits until it pauses at a gate or finishes.
func (a *Actor) start(fn func()) error {
	a.mu.Lock()
	if a.busy {
		a.mu.Unlock()
		return fmt.Errorf("actor %s is busy", a.Name)
	}
	a.busy = true
	a.mu.Unlock()
	go func() {
		defer func() {
			// a panicking reconcile is a crash of the server process: it is recorded, and the world goes on
			if r := recover(); r != nil {
				a.w.notePanic(fmt.Sprintf("%s %s/%s: %v @ %s", a.Name, a.CurCtl, a.CurID, r, panicSite()))
			}
			a.yield <- yieldMsg{done: true}
		}()
		fn()
	}()
	return a.wait()
}

func (a *Actor) wait() error {
	select {
	case m := <-a.yield:
		a.mu.Lock()
		if m.done {
			a.busy = false
			a.paused = nil
		} else {
			a.paused = m.gate
		}
		a.mu.Unlock()
		return nil
	case <-time.After(InfraTimeout):
		return fmt.Errorf("infra: actor %s did not yield within %s", a.Name, InfraTimeout)
	}
}

// release lets a paused actor perform its pending effect and run to the next gate or the end.
func (a *Actor) release() error {
	a.mu.Lock()
	if a.paused == nil {
		a.mu.Unlock()
		return fmt.Errorf("actor %s is not paused", a.Name)
	}
	a.paused = nil
	a.mu.Unlock()
	a.resume <- struct{}{}
	return a.wait()
}

func (a *Actor) pausedGate() *Gate {
	a.mu.Lock()
	defer a.mu.Unlock()
	return a.paused
}

func (a *Actor) isBusy() bool {
	a.mu.Lock()
	defer a.mu.Unlock()
	return a.busy
}

// kill marks the actor dead; a paused actor is released so that its goroutine unwinds without effect.
func (a *Actor) kill() error {
	a.mu.Lock()
	a.dead = true
	paused := a.paused != nil
	a.paused = nil
	a.mu.Unlock()
	if paused {
		a.resume <- struct{}{}
		return a.wait()
	}
	return nil
}
