CONSTANT Family = "tree4"
INIT Init
NEXT Next
CHECK_DEADLOCK FALSE
INVARIANT Export
