CONSTANT Family = "value"
SPECIFICATION TSpec
CHECK_DEADLOCK FALSE
POSTCONDITION Accepted
INVARIANT Report
