----------------------------- MODULE PureTrace -----------------------------
(* Validation of what the REAL conversion functions returned (harness/cmd/purerun) against PureModel. *)
EXTENDS PureModel, IOUtils

TraceFile == IF "TRACE" \in DOMAIN IOEnv THEN IOEnv.TRACE ELSE "pure.ndjson"
Trace == TLCEval(ndJsonDeserialize(TraceFile))

VARIABLES l, obs
TInit == l = 0 /\ obs = [kind |-> "none", panic |-> ""] /\ case = [kind |-> "none"]
TNext == l < Len(Trace) /\ l' = l + 1 /\ obs' = Trace[l + 1] /\ UNCHANGED case
TSpec == TInit /\ [][TNext]_<<l, obs, case>>
Accepted == TLCGet("stats").diameter - 1 = Len(Trace)

c == obs.case
IsTree == obs.kind = "tree"
IsPath == obs.kind = "path"
IsValue == obs.kind = "value"
Vals == ValOf(Range(c.items))
Cnt(m, k) == IF k \in DOMAIN m THEN m[k] ELSE 0

Clauses ==
    [ \* C18: the document holds exactly the live leaves; pruning removes exactly the deleted nodes and what lies beneath
      C18_NoPanic |-> IsTree => obs.panic = "" /\ obs.err = "",
      C18_TreeIsLiveLeavesV2 |-> IsTree => Range(obs.flatv2) = RefLive(Vals),
      C18_TreeIsLiveLeavesV3 |-> IsTree => Range(obs.flatv3) = RefLive(Vals),
      C18_PruneExactV2 |-> IsTree => (Range(obs.ptop2) = RefPruned(Vals, TRUE) /\ Range(obs.pnotop2) = RefPruned(Vals, FALSE)),
      C18_PruneExactV3 |-> IsTree => (Range(obs.ptop3) = RefPruned(Vals, TRUE) /\ Range(obs.pnotop3) = RefPruned(Vals, FALSE)),
      \* list entries are identified by their full key sets: never merged, never split
      C18_ListEntriesV2 |-> IsTree => \A ln \in {"l", "m"} : Cnt(obs.lists2, ln) = Cardinality(ListEntries(Vals, ln)),
      C18_ListEntriesV3 |-> IsTree => \A ln \in {"l", "m"} : Cnt(obs.lists3, ln) = Cardinality(ListEntries(Vals, ln)),
      \* C16: for accepted names and key values
      C16_NoPanic |-> IsPath => obs.panic = "",
      \* rendering, splitting and parsing respect brackets and escapes: for every generated path, accepted by Set or not
      \* (the key values include the escape-worthy characters ']' '[' '/' '=' and the backslash)
      C16_RoundTrip |-> IsPath => obs.roundtrip,
      C16_Injective |-> IsPath => ~obs.collides,
      C16_Parent |-> (IsPath /\ obs.accepted) => obs.parentok,
      \* C17
      C17_NoPanic |-> IsValue => obs.panic = "",
      \* (an empty leaf-list is refused by the conversion, it is not a value of a supported type)
      C17_ProtoRoundTripV2 |-> (IsValue /\ ~(c.val.ll /\ c.val.n = 0)) => obs.rt2,
      C17_ProtoRoundTripV3 |-> (IsValue /\ ~(c.val.ll /\ c.val.n = 0)) => obs.rt3,
      C17_JsonKindV2 |-> (IsValue /\ c.val.type # "float" /\ ~(c.val.ll /\ c.val.n = 0)) => obs.jsonkind2 = JsonKind(c.val),
      C17_JsonKindV3 |-> (IsValue /\ c.val.type # "float" /\ ~(c.val.ll /\ c.val.n = 0)) => obs.jsonkind3 = JsonKind(c.val),
      C17_JsonDigitsV2 |-> (IsValue /\ c.val.type \in {"int", "uint", "bool", "string"} /\ ~(c.val.ll /\ c.val.n = 0)) => obs.jsontext2 = obs.expecttext,
      C17_JsonDigitsV3 |-> (IsValue /\ c.val.type \in {"int", "uint", "bool", "string"} /\ ~(c.val.ll /\ c.val.n = 0)) => obs.jsontext3 = obs.expecttext ]

\* the renderings are well-behaved even outside the accepted alphabet (diagnostics only)
Beyond == IsPath /\ ~obs.accepted /\ ~obs.parentok

Report ==
    LET bad == {n \in DOMAIN Clauses : ~Clauses[n]} IN
    /\ bad = {} \/ PrintT(<<"VIOLATION", l, bad>>)
    /\ ~Beyond \/ PrintT(<<"BEYOND", l>>)
=============================================================================
