----------------------------- MODULE PureModel -----------------------------
(***************************************************************************)
(* Case spaces and expected results for the pure conversion functions:     *)
(*  C16 textual <-> gNMI paths, C17 typed values, C18 JSON tree / pruning. *)
(* TLC enumerates the cases (Family) and evaluates the expectations on     *)
(* what the REAL functions returned (PureTrace).                           *)
(***************************************************************************)
EXTENDS Integers, Sequences, FiniteSets, TLC, Json, PathsTree

CONSTANT Family
VARIABLE case
Range(s) == {s[x] : x \in DOMAIN s}

VO == INSTANCE ValueOps WITH AllPaths <- PU_All, GoParent <- PU_GoParent, TextPrefix <- PU_TextPrefix, ElemPrefix <- PU_ElemPrefix, Rank <- PU_Rank

\* ------------------------------------------------------------------ C18: sets of path values
\* an item is a live leaf value or a tombstone (of a leaf or an interior node)
Items == [p : PU_Leaves, d : {FALSE}] \cup [p : PU_All, d : {TRUE}]
ItemSets(n) == {S \in SUBSET Items : Cardinality(S) <= n /\ \A a, b \in S : a.p = b.p => a = b}
RECURSIVE KSubsets(_, _)
KSubsets(S, k) == IF k = 0 THEN {{}} ELSE IF S = {} THEN {} ELSE
                  LET x == CHOOSE y \in S : TRUE IN KSubsets(S \ {x}, k) \cup {T \cup {x} : T \in KSubsets(S \ {x}, k - 1)}
TreeSets(n) == {S \in UNION {KSubsets(Items, k) : k \in 0..n} : \A a, b \in S : a.p = b.p => a = b}
ValOf(S) == [p \in {i.p : i \in S} |-> LET i == CHOOSE j \in S : j.p = p IN [v |-> IF i.d THEN "" ELSE "v", d |-> i.d, i |-> 1]]
\* reference: the live leaves not beneath (or at) a tombstone, at path element boundaries
RefLive(vals) == {p \in DOMAIN vals : ~vals[p].d /\ ~\E q \in DOMAIN vals : vals[q].d /\ VO!Covers(q, p)}
\* reference pruning: live leaves not beneath a tombstone, plus (optionally) the top-most tombstones
RefPruned(vals, leaveTop) == RefLive(vals) \cup
    (IF leaveTop THEN {q \in DOMAIN vals : vals[q].d /\ ~\E r \in DOMAIN vals : r # q /\ vals[r].d /\ VO!Covers(r, q)} ELSE {})
\* the list entries the live leaves belong to: distinct key sets per list name
ListEntries(vals, lname) == {PU_Elems[p][1].keys : p \in {x \in RefLive(vals) : PU_Elems[x][1].name = lname /\ PU_Elems[x][1].keys # << >>}}

\* ------------------------------------------------------------------ C16: abstract paths
Names == {"a", "mod:a", "a-b.c_d"}
KeyNames == {"k", "j"}
KeyVals == {"1", "10", "a.b", "a-b_c", "x:y", "a=b", "a]b", "a/b", "a[b", "bs"}   \* "bs" stands for a value with a backslash
Keys0 == {<< >>}
Keys1 == {<<[n |-> kn, v |-> kv]>> : kn \in KeyNames, kv \in KeyVals}
Keys2 == {<<[n |-> "j", v |-> a], [n |-> "k", v |-> b]>> : a \in KeyVals, b \in KeyVals}
ElemsAll == [name : Names, keys : Keys0 \cup Keys1 \cup Keys2]
ElemsFew == [name : {"a", "mod:a"}, keys : Keys0 \cup {<<[n |-> "k", v |-> kv]>> : kv \in KeyVals}]
PathCases == {<<e>> : e \in ElemsAll} \cup {<<a, b>> : a \in ElemsFew, b \in ElemsFew} \cup {<<a, b, c>> : a \in ElemsFew, b \in ElemsFew, c \in ElemsFew}

\* ------------------------------------------------------------------ C17: typed values
Widths == {8, 16, 32, 64}
IntClasses == {"min", "minus1", "zero", "one", "max", "p31", "p32", "p53m1", "p53p1"}
ScalarCases == [type : {"int", "uint"}, width : Widths, cls : IntClasses, n : {0}]
               \cup [type : {"string"}, width : {0}, cls : {"empty", "plain", "unicode", "digits", "quote"}, n : {0}]
               \cup [type : {"bool"}, width : {0}, cls : {"true", "false"}, n : {0}]
               \cup [type : {"bytes"}, width : {0}, cls : {"empty", "zeros", "ff"}, n : {0}]
               \cup [type : {"decimal"}, width : {1, 3, 6}, cls : {"zero", "one", "max", "minus1", "frac"}, n : {0}]
               \cup [type : {"float"}, width : {0}, cls : {"zero", "one", "frac", "big", "minus1"}, n : {0}]
LeafListCases == [type : {"int", "uint"}, width : Widths, cls : {"min", "max", "one", "p32"}, n : {0, 1, 3}]
                 \cup [type : {"string", "bool", "bytes", "float"}, width : {0}, cls : {"plain", "true", "ff", "frac"}, n : {0, 1, 3}]
                 \cup [type : {"decimal"}, width : {3}, cls : {"frac", "max"}, n : {1, 3}]
\* does the class exist for the type and width (e.g. 2^32 does not fit 8..32 bit widths)
Fits(c) == CASE c.type \in {"int", "uint"} ->
                   /\ (c.cls \in {"p31"} => c.width >= 64 \/ (c.type = "uint" /\ c.width >= 32))
                   /\ (c.cls \in {"p32", "p53m1", "p53p1"} => c.width = 64)
                   /\ (c.cls \in {"min", "minus1"} => c.type = "int" \/ c.cls = "min")
             [] c.type = "string" -> c.cls \in {"empty", "plain", "unicode", "digits", "quote"}
             [] c.type = "bool" -> c.cls \in {"true", "false"}
             [] c.type = "bytes" -> c.cls \in {"empty", "zeros", "ff"}
             [] c.type = "float" -> c.cls \in {"zero", "one", "frac", "big", "minus1"}
             [] OTHER -> TRUE
ValueCases == {c \in ScalarCases \cup [ll : {TRUE}] : FALSE} \cup {[c EXCEPT !.n = c.n] : c \in {x \in ScalarCases : Fits(x)}}
ValueCasesAll == {[type |-> c.type, width |-> c.width, cls |-> c.cls, n |-> c.n, ll |-> FALSE] : c \in {x \in ScalarCases : Fits(x)}}
                 \cup {[type |-> c.type, width |-> c.width, cls |-> c.cls, n |-> c.n, ll |-> TRUE] : c \in {x \in LeafListCases : Fits(x)}}
\* RFC 7951: 64-bit integers and decimal64 are JSON strings, narrower integers JSON numbers
JsonKind(c) == CASE c.type \in {"int", "uint"} -> IF c.width > 32 THEN "string" ELSE "number"
                 [] c.type = "decimal" -> "string"
                 [] c.type = "bool" -> "bool"
                 [] c.type = "float" -> "string"
                 [] OTHER -> "string"

Cases == CASE Family = "tree4" -> [kind : {"tree"}, items : TreeSets(4)]
           [] Family = "tree3" -> [kind : {"tree"}, items : TreeSets(3)]
           [] Family = "tree5" -> [kind : {"tree"}, items : TreeSets(5)]
           [] Family = "path" -> [kind : {"path"}, elems : PathCases]
           [] Family = "value" -> [kind : {"value"}, val : ValueCasesAll]
Init == case \in Cases
Next == UNCHANGED case
Export == PrintT(<<"CASE", ToJson(case)>>)
=============================================================================
