CONSTANT Family = "tree3"
INIT Init
NEXT Next
CHECK_DEADLOCK FALSE
INVARIANT Export
