CONSTANT Family = "path"
INIT Init
NEXT Next
CHECK_DEADLOCK FALSE
INVARIANT Export
