------------------------------ MODULE ValueOps ------------------------------
(***************************************************************************)
(* The value-map algorithms of onos-config, transcribed from the Go code   *)
(* (pkg/controller/v2/proposal, pkg/controller/utils, pkg/utils/v2/tree,   *)
(* pkg/store/v2/configuration).  A value map is a function from textual    *)
(* paths to records [v |-> value text, d |-> deleted?, i |-> index].       *)
(*                                                                         *)
(* The Go code works on strings (strings.HasPrefix, LastIndex("/"), sort   *)
(* order).  Those relations are tabulated for a closed universe of paths   *)
(* by tools/gen_paths.py and passed in as constants.  Loops over Go maps   *)
(* are written so that their result does not depend on the order (the Go   *)
(* code applies deletes before updates); Orders remains for the callers    *)
(* that iterate index groups.                                              *)
(***************************************************************************)
EXTENDS Integers, Sequences, FiniteSets, TLC

CONSTANTS AllPaths,   \* closed universe of textual paths
          GoParent,   \* [AllPaths -> AllPaths \cup {""}]  GetParentPath
          TextPrefix, \* {<<q, p>> : strings.HasPrefix(p, q)}
          ElemPrefix, \* {<<q, p>> : q is p or an ancestor of p at element boundaries}
          Rank        \* [AllPaths -> Nat] byte-wise string order

HasPrefix(p, q) == <<q, p>> \in TextPrefix   \* strings.HasPrefix(p, q)
Covers(q, p)    == <<q, p>> \in ElemPrefix   \* gNMI: q names p or an ancestor of p

Put(f, k, v) == [x \in (DOMAIN f) \cup {k} |-> IF x = k THEN v ELSE f[x]]
Drop(f, ks)  == [x \in (DOMAIN f) \ ks |-> f[x]]
Merge(f, g)  == [x \in (DOMAIN f) \cup (DOMAIN g) |-> IF x \in DOMAIN g THEN g[x] ELSE f[x]]
EmptyMap     == [x \in {} |-> [v |-> "", d |-> FALSE, i |-> 0]]

Tomb(i) == [v |-> "", d |-> TRUE, i |-> i]
Val(v, i) == [v |-> v, d |-> FALSE, i |-> i]

\* all orders (sequences without repetition) over a finite set
Orders(S) == {s \in [1..Cardinality(S) -> S] : \A a, b \in 1..Cardinality(S) : a # b => s[a] # s[b]}

\* the order a sort by path produces
SortedSeq(S) == CHOOSE s \in Orders(S) : \A a, b \in 1..Len(s) : a < b => Rank[s[a]] < Rank[s[b]]

(***************************************************************************)
(* applyChangeToConfig(values, path, value): set the value; a value that   *)
(* is not a delete makes the path exist again, so every parent (by path    *)
(* prefix at element boundaries, list names included) that is marked       *)
(* deleted is removed.  Returns the new map and the removed parents.       *)
(***************************************************************************)
DeletedParents(vals, p) == {a \in DOMAIN vals : vals[a].d /\ a # p /\ HasPrefix(p, a)}

ApplyChange(vals, p, val) ==
    LET v1 == Put(vals, p, val)
        gone == IF val.d THEN {} ELSE DeletedParents(v1, p)
    IN  [vals |-> Drop(v1, gone), removed |-> [a \in gone |-> v1[a]]]

\* the deletes of a change take effect before its updates; within each pass the result does not depend on the order
RECURSIVE ApplySeq(_, _, _)
ApplySeq(vals, ch, order) ==
    IF order = << >> THEN vals
    ELSE ApplySeq(ApplyChange(vals, Head(order), ch[Head(order)]).vals, ch, Tail(order))

ApplyAll(vals, ch) ==
    LET dels == {p \in DOMAIN ch : ch[p].d}
        upds == (DOMAIN ch) \ dels
    IN ApplySeq(ApplySeq(vals, ch, SortedSeq(dels)), ch, SortedSeq(upds))

(***************************************************************************)
(* AddDeleteChildren(index, changeValues, configStore).  For every deleted *)
(* change value, every config value beneath it (path prefix at element     *)
(* boundaries) is marked deleted IN PLACE (index := index; its value text  *)
(* is not observable any more and is blanked here) and added to the        *)
(* result; then the updates of the change override.                        *)
(* Returns [upd |-> updated change values, cfg |-> mutated config values]. *)
(***************************************************************************)
AddDeleteChildren(index, ch, cfg) ==
    LET dels == {p \in DOMAIN ch : ch[p].d}
        kids == {k \in DOMAIN cfg : \E p \in dels : HasPrefix(k, p) /\ k # p}
        cfg2 == [k \in DOMAIN cfg |-> IF k \in kids THEN [cfg[k] EXCEPT !.d = TRUE, !.i = index, !.v = ""] ELSE cfg[k]]
    IN [upd |-> [k \in kids \cup DOMAIN ch |-> IF k \in DOMAIN ch THEN ch[k] ELSE cfg2[k]],
        cfg |-> cfg2]

(***************************************************************************)
(* PrunePathValues(paths, leaveTopDeletedPaths): sort by path; a deleted   *)
(* path starts a "deleting prefix"; everything having it as TEXTUAL prefix *)
(* is dropped; the first path outside it resets the prefix.                *)
(* Returns the set of surviving paths.                                     *)
(***************************************************************************)
RECURSIVE PruneR(_, _, _, _, _)
PruneR(vals, sorted, leaveTop, prefix, acc) ==
    IF sorted = << >> THEN acc
    ELSE LET p == Head(sorted)
             starts == vals[p].d /\ (prefix = "" \/ ~HasPrefix(p, prefix))
             prefix1 == IF starts THEN p ELSE prefix
             acc1 == IF starts /\ leaveTop THEN acc \cup {p} ELSE acc
             outside == prefix1 = "" \/ ~HasPrefix(p, prefix1)
         IN PruneR(vals, Tail(sorted), leaveTop,
                   IF outside THEN "" ELSE prefix1,
                   IF outside THEN acc1 \cup {p} ELSE acc1)

PrunedPaths(vals, leaveTop) == PruneR(vals, SortedSeq(DOMAIN vals), leaveTop, "", {})
PruneMap(vals, leaveTop) == [p \in PrunedPaths(vals, leaveTop) |-> vals[p]]

\* leaves of the JSON document BuildTree produces (values only)
DocLeaves(vals) == LET keep == {p \in PrunedPaths(vals, FALSE) : ~vals[p].d}
                   IN [p \in keep |-> vals[p].v]

(***************************************************************************)
(* configurationStore.store(map, values, removeMissing): the keys present  *)
(* in values are inserted if they survive pruning (top tombstones          *)
(* survive), removed if they do not, and overwritten only if the index     *)
(* differs; with removeMissing (the committed values written by Update)    *)
(* stored entries that values no longer contains are removed as well.      *)
(***************************************************************************)
StoreValues(stored, vals, removeMissing) ==
    LET pruned == PrunedPaths(vals, TRUE)
        ins == {p \in DOMAIN vals : p \notin DOMAIN stored /\ p \in pruned}
        rem == {p \in DOMAIN vals : p \in DOMAIN stored /\ p \notin pruned}
                  \cup (IF removeMissing THEN (DOMAIN stored) \ (DOMAIN vals) ELSE {})
        upd == {p \in DOMAIN vals : p \in DOMAIN stored /\ p \in pruned /\ vals[p].i # stored[p].i}
    IN [p \in ((DOMAIN stored) \ rem) \cup ins |->
           IF p \in ins \/ p \in upd THEN vals[p] ELSE stored[p]]

\* the southbound request of an apply: the updates, and the top-most deletes
SentPaths(upd) == {p \in DOMAIN upd : ~upd[p].d} \cup PrunedPaths([p \in {x \in DOMAIN upd : upd[x].d} |-> upd[p]], TRUE)

(***************************************************************************)
(* Reference semantics (what the properties are stated in): the live view  *)
(* of a value map, and gNMI update / delete on a plain leaf map.           *)
(***************************************************************************)
LiveView(vals) == LET keep == {p \in DOMAIN vals : ~vals[p].d} IN [p \in keep |-> vals[p].v]

\* change: path -> value text, "DEL" = delete. Deletes first, then updates (gNMI order).
RefApply(leaves, ch) ==
    LET dels == {p \in DOMAIN ch : ch[p] = "DEL"}
        upds == (DOMAIN ch) \ dels
        kept == {p \in DOMAIN leaves : ~\E q \in dels : Covers(q, p)}
    IN [p \in kept \cup upds |-> IF p \in upds THEN ch[p] ELSE leaves[p]]
=============================================================================
