CONSTANT Family = "tree5"
INIT Init
NEXT Next
CHECK_DEADLOCK FALSE
INVARIANT Export
