CONSTANT Family = "value"
INIT Init
NEXT Next
CHECK_DEADLOCK FALSE
INVARIANT Export
