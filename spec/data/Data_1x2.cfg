CONSTANTS
 AllPaths <- PU_All
 Leaves <- PU_Leaves
 GoParent <- PU_GoParent
 TextPrefix <- PU_TextPrefix
 ElemPrefix <- PU_ElemPrefix
 Rank <- PU_Rank
 Values = {"v1", "v2"}
 MaxOps = 1
 MaxReqSize = 2
INIT Init
NEXT Next
CHECK_DEADLOCK FALSE
INVARIANT Export
INVARIANT Agree
