---------------------------- MODULE ConfigDataMC ----------------------------
(* Bounded exploration of ConfigData and export of the histories (requests only: the expected results are
   recomputed by DataTrace from the reference semantics when the real observations are validated). *)
EXTENDS ConfigData, PathsData, Json, IOUtils

\* histories are printed once complete; the checker de-duplicates (several implementation states per history)
Export == (Len(hist) = MaxOps) => PrintT(<<"HIST", ToJson(hist), Agree>>)
\* simulation only GENERATES histories (random requests, occasionally a rollback); the implementation layer is
\* not evaluated there (its order nondeterminism is factorial in the number of cascaded children), so the
\* Agree flag printed for simulated histories carries no information.  The arguments of RandomElement are made
\* state-dependent so that TLC does not evaluate the random choice once as a constant.
GenNext ==
    /\ Len(hist) < MaxOps
    /\ \/ \E ch \in {RandomElement(IF Len(hist) >= 0 THEN Requests ELSE {})} : hist' = Append(hist, [kind |-> "set", ch |-> ch])
       \/ (Len(hist) > 0 /\ RandomElement(IF Len(hist) >= 0 THEN 1..3 ELSE {}) = 1 /\ hist' = Append(hist, [kind |-> "rollback"]))
    /\ UNCHANGED <<ref, refStack, impl, implStack>>

\* model-level classification only: does the transcribed algorithm agree with the reference here?
AgreeAtEnd == (Len(hist) = MaxOps) => Agree
=============================================================================
