----------------------------- MODULE ConfigData -----------------------------
(***************************************************************************)
(* Sequential data semantics of one target's configuration (C03, C06, and  *)
(* the data side of C04 / C05).                                            *)
(*                                                                         *)
(* Two layers over the same history of requests:                           *)
(*  - ref : the REFERENCE semantics, which is the property itself: a       *)
(*    configuration is a function from leaf paths to values; a gNMI update *)
(*    sets that leaf, a delete removes the addressed node and everything   *)
(*    beneath it at path-element boundaries, a rollback of the latest      *)
(*    change restores the state before it;                                 *)
(*  - impl: the algorithm the Go code runs (validate-time rollback capture,*)
(*    AddDeleteChildren, applyChangeToConfig, store pruning), transcribed  *)
(*    in ValueOps.                                                         *)
(* TLC explores all bounded histories; Agree (impl view = ref) is checked  *)
(* at the model level to find and classify divergences, and the histories  *)
(* are exported and replayed on the real code, whose observable results    *)
(* (northbound Get in PROTO and JSON, the document shown to the plugin,    *)
(* the device) are validated against ref by DataTrace.                     *)
(***************************************************************************)
EXTENDS Integers, Sequences, FiniteSets, TLC

CONSTANTS AllPaths, Leaves, GoParent, TextPrefix, ElemPrefix, Rank,
          Values,     \* value tokens
          MaxOps,     \* history length
          MaxReqSize  \* operations per request

VO == INSTANCE ValueOps

VARIABLES hist,   \* sequence of requests: [kind |-> "set", ch |-> path :> value | "DEL"] or [kind |-> "rollback"]
          ref,    \* reference configuration: leaf path -> value
          refStack, \* reference pre-images of the changes the configuration reflects
          impl,   \* implementation value map: path -> [v, d, i]
          implStack \* per reflected change: [i, rbvals, rbidx] as captured at validation time

vars == <<hist, ref, refStack, impl, implStack>>

EmptyFn == [x \in {} |-> 0]

\* all requests: non-empty change maps of at most MaxReqSize operations;
\* updates address leaves, deletes address leaves or interior nodes
Ops == [p : Leaves, v : Values] \cup [p : AllPaths, v : {"DEL"}]
ChangeOf(ops) == [path \in {o.p : o \in ops} |-> (CHOOSE o \in ops : o.p = path).v]
Requests == {ChangeOf({o}) : o \in Ops}
            \cup (IF MaxReqSize >= 2 THEN UNION {{ChangeOf({a, b}) : b \in {x \in Ops : x.p # a.p}} : a \in Ops} ELSE {})

Init == /\ hist = << >> /\ ref = EmptyFn /\ refStack = << >>
        /\ impl = VO!EmptyMap /\ implStack = << >>

Idx == Len(hist) + 1

ChangeVals(ch, i) == [path \in DOMAIN ch |-> IF ch[path] = "DEL" THEN VO!Tomb(i) ELSE VO!Val(ch[path], i)]

\* validate-time capture of the rollback values (reconcileValidate): deletes first (everything beneath the
\* deleted path is captured), then the updates (removed deleted parents are captured)
RECURSIVE CapDeletes(_, _, _, _, _)
CapDeletes(cfgvals, chvals, cv, rb, ord) ==
    IF ord = << >> THEN [cv |-> cv, rb |-> rb]
    ELSE LET path == Head(ord)
             kids == {k \in DOMAIN cfgvals : VO!HasPrefix(k, path) /\ k # path}
             rb1 == [k \in (DOMAIN rb) \cup kids |-> IF k \in kids THEN cfgvals[k] ELSE rb[k]]
             cv1 == VO!Put(VO!Drop(cv, kids), path, chvals[path])
             rb2 == IF path \in DOMAIN cfgvals THEN VO!Put(rb1, path, cfgvals[path]) ELSE rb1
         IN CapDeletes(cfgvals, chvals, cv1, rb2, Tail(ord))

RECURSIVE CapUpdates(_, _, _, _, _)
CapUpdates(cfgvals, chvals, cv, rb, ord) ==
    IF ord = << >> THEN [cv |-> cv, rb |-> rb]
    ELSE LET path == Head(ord)
             r == VO!ApplyChange(cv, path, chvals[path])
             rb2 == VO!Put(VO!Merge(rb, r.removed), path, IF path \in DOMAIN cfgvals THEN cfgvals[path] ELSE VO!Tomb(0))
         IN CapUpdates(cfgvals, chvals, r.vals, rb2, Tail(ord))

Capture(cfgvals, chvals) ==
    LET dels == {x \in DOMAIN chvals : chvals[x].d}
        d == CapDeletes(cfgvals, chvals, cfgvals, VO!EmptyMap, VO!SortedSeq(dels))
    IN CapUpdates(cfgvals, chvals, d.cv, d.rb, VO!SortedSeq((DOMAIN chvals) \ dels)).rb

\* the commit of change values chvals with transaction index i (reconcileCommit + store)
Commit(vals, chvals, i) ==
    LET adc == VO!AddDeleteChildren(i, chvals, vals)
    IN VO!StoreValues(vals, VO!ApplyAll(adc.cfg, adc.upd), TRUE)

DoSet(ch) ==
    /\ Len(hist) < MaxOps
    /\ hist' = Append(hist, [kind |-> "set", ch |-> ch])
    /\ ref' = VO!RefApply(ref, ch)
    /\ refStack' = Append(refStack, ref)
    /\ impl' = Commit(impl, ChangeVals(ch, Idx), Idx)
    /\ implStack' = Append(implStack, [i |-> Idx, rbvals |-> Capture(impl, ChangeVals(ch, Idx))])

\* rollback of the change the configuration currently reflects
DoRollback ==
    /\ Len(hist) < MaxOps
    /\ refStack # << >>
    /\ hist' = Append(hist, [kind |-> "rollback"])
    /\ ref' = refStack[Len(refStack)]
    /\ refStack' = SubSeq(refStack, 1, Len(refStack) - 1)
    /\ impl' = Commit(impl, implStack[Len(implStack)].rbvals, Idx)
    /\ implStack' = SubSeq(implStack, 1, Len(implStack) - 1)

Next == (\E ch \in Requests : DoSet(ch)) \/ DoRollback

Spec == Init /\ [][Next]_vars

\* the property at the model level
ImplView == VO!LiveView(impl)
Agree == ImplView = ref

\* the document the plugin is shown for the NEXT change is built from impl: what it shows for the current state
DocView == VO!DocLeaves(impl)
DocAgree == DocView = ref
=============================================================================
