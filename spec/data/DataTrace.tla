----------------------------- MODULE DataTrace -----------------------------
(***************************************************************************)
(* Validation of what the REAL code made observable after each request of  *)
(* a history (recorded by harness/cmd/datarun) against the reference       *)
(* semantics of ConfigData: TLC recomputes ref from the logged requests    *)
(* and evaluates the clauses on every line.  One VIOLATION line per        *)
(* offending observation; the run continues.                               *)
(***************************************************************************)
EXTENDS Integers, Sequences, FiniteSets, TLC, Json, IOUtils, PathsData

VO == INSTANCE ValueOps WITH AllPaths <- PU_All, GoParent <- PU_GoParent, TextPrefix <- PU_TextPrefix,
                             ElemPrefix <- PU_ElemPrefix, Rank <- PU_Rank

TraceFile == IF "TRACE" \in DOMAIN IOEnv THEN IOEnv.TRACE ELSE "data.ndjson"
Trace == TLCEval(ndJsonDeserialize(TraceFile))

VARIABLES l, ref, refStack, obs

vars == <<l, ref, refStack, obs>>
EmptyFn == [x \in {} |-> 0]

\* list-key leaves appear in JSON documents without being stored values
IsKeyLeaf(p) == FALSE
Known(f) == [p \in (DOMAIN f) \cap PU_All |-> f[p]]
Unknown(f) == (DOMAIN f) \ PU_All

\* --- reference matching of Get patterns, on structured elements -----------------------------
KeysMatch(pk, qk) == \A k \in DOMAIN pk : k \in DOMAIN qk /\ (pk[k] = "*" \/ pk[k] = qk[k])
ElemMatches(pe, qe) == pe.name = "*" \/ (pe.name = qe.name /\ KeysMatch(pe.keys, qe.keys))
RECURSIVE MatchFrom(_, _)
\* does the pattern (sequence of elements) match a prefix of the path (sequence of elements)?
MatchFrom(pat, path) ==
    IF pat = << >> THEN TRUE
    ELSE IF Head(pat).name = "..." THEN \E n \in 0..Len(path) : MatchFrom(Tail(pat), SubSeq(path, n + 1, Len(path)))
    ELSE IF path = << >> THEN FALSE
    ELSE ElemMatches(Head(pat), Head(path)) /\ MatchFrom(Tail(pat), Tail(path))
Selected(pat, cfg) == [p \in {x \in DOMAIN cfg : MatchFrom(PU_PatElems[pat], PU_Elems[x])} |-> cfg[p]]

Init == l = 0 /\ ref = EmptyFn /\ refStack = << >> /\ obs = [kind |-> "none"]

Next ==
    /\ l < Len(Trace)
    /\ l' = l + 1
    /\ LET L == Trace[l + 1] IN
       /\ obs' = [canrb |-> (refStack # << >>)] @@ L
       /\ IF L.kind = "init" THEN ref' = EmptyFn /\ refStack' = << >>
          ELSE IF L.kind = "set" THEN ref' = VO!RefApply(ref, L.ch) /\ refStack' = Append(refStack, ref)
          \* the device restarted empty and was connected again: nothing changes in the configuration
          ELSE IF L.kind = "resync" THEN UNCHANGED <<ref, refStack>>
          ELSE IF refStack # << >> THEN ref' = refStack[Len(refStack)] /\ refStack' = SubSeq(refStack, 1, Len(refStack) - 1)
          ELSE UNCHANGED <<ref, refStack>>

Spec == Init /\ [][Next]_vars
Accepted == TLCGet("stats").diameter - 1 = Len(Trace)

IsOp == obs.kind \in {"set", "rollback"}
\* key leaves of list entries are part of JSON documents although they were never set
NoKeys(f) == [p \in {x \in DOMAIN f : x \in PU_All} |-> f[p]]
OnlyKeysExtra(f) == TRUE

Clauses ==
    [ \* every request is answered with success (all requests of a data history are valid)
      C03_Answered |-> (IsOp /\ obs.kind = "set") => (obs.answered /\ obs.ok /\ obs.txstate = "APPLIED"),
      \* a rollback is answered: with success if there is a change to roll back, with a refusal otherwise
      C06_RollbackAnswered |-> (IsOp /\ obs.kind = "rollback") => (obs.answered /\ (obs.ok <=> obs.canrb)),
      \* Get returns exactly the sequential effect of the acknowledged requests
      C03_GetIsSequential |-> (IsOp /\ obs.kind = "set") => obs.get = ref,
      C03_JsonGetIsSequential |-> (IsOp /\ obs.kind = "set") => NoKeys(obs.getjson) = ref,
      \* every Get pattern selects exactly the reference leaves it names, at element boundaries
      C03_PatternGets |-> IsOp => \A pat \in DOMAIN obs.pat : pat \in PU_Patterns => obs.pat[pat] = Selected(pat, obs.get),
      \* however the request addresses the target and the path (target in the prefix, only a prefix, the path split
      \* over prefix and path), it reads the same leaves
      C03_GetAddressing |-> IsOp => \A v \in DOMAIN obs.via : obs.via[v] = obs.get,
      C03_PatternAddressing |-> IsOp => \A pat \in DOMAIN obs.patp : pat \in DOMAIN obs.pat => obs.patp[pat] = obs.pat[pat],
      \* a rollback of the latest change restores exactly the state before it
      C06_RollbackRestoresData |-> (IsOp /\ obs.kind = "rollback") => (obs.get = ref /\ NoKeys(obs.getjson) = ref),
      \* once applied the device holds the same configuration
      C04_DeviceIsSequential |-> (IsOp /\ obs.idle) => obs.dev = ref,
      \* after the device restarted empty and was connected again, what was applied is pushed again: the device holds
      \* the stored configuration once the target is reported synchronized
      C04_ResyncRestores |-> (obs.kind = "resync" /\ obs.idle /\ obs.txstate = "SYNCHRONIZED") => obs.dev = ref,
      C04_ResyncCompletes |-> (obs.kind = "resync" /\ obs.idle) => obs.txstate = "SYNCHRONIZED",
      \* the document the plugin accepted is, leaf for leaf, what becomes readable
      C05_DocumentIsReadable |-> (IsOp /\ obs.hasdoc) => NoKeys(obs.doc) = obs.get ]

Report ==
    LET bad == {c \in DOMAIN Clauses : ~Clauses[c]} IN
    bad = {} \/ PrintT(<<"VIOLATION", l, bad>>)
=============================================================================
