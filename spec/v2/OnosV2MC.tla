------------------------------ MODULE OnosV2MC ------------------------------
(***************************************************************************)
(* Model-checking / simulation harness around OnosV2:                      *)
(*  - bounds on the environment (budget) so that exhaustive runs end;      *)
(*  - a schedule history variable (sched) recording every step in the      *)
(*    format of the Go harness' world.Step, exported as JSON at the end of *)
(*    each simulated behaviour: TLC is the generator of the schedules,     *)
(*    fault placements, crash points and request histories that are        *)
(*    replayed on the real code.                                           *)
(* sched is pure observation; exhaustive configs hide it with VIEW.        *)
(***************************************************************************)
EXTENDS OnosV2Props, PathsSmall, Json, IOUtils

CONSTANTS MaxCrashes, MaxConnEvents, MaxDevRestarts, MaxFailBursts,
          HandlerSeq,  \* handler names in the order they are used
          ConnSeq,     \* connection ids in the order they are used
          MaxSteps,    \* behaviours are cut (and exported) at this length
          FineClients  \* northbound handlers take their two store calls as separate steps

VARIABLES budget, sched

mcvars == <<vars, budget, sched>>
View == <<vars, budget>>

IdStr(c, id) == IF c = "tx" THEN ToString(id) ELSE id

MCInit ==
    /\ Init
    /\ budget = [crash |-> MaxCrashes, conn |-> MaxConnEvents, devrestart |-> MaxDevRestarts, fail |-> MaxFailBursts, connused |-> 0]
    /\ sched = << >>

Step(s) == sched' = Append(sched, s)
Keep == budget' = budget
Spend(f) == budget[f] > 0 /\ budget' = [budget EXCEPT ![f] = @ - 1]

NextHandler == IF Cardinality(DOMAIN h) < Len(HandlerSeq) THEN {HandlerSeq[Cardinality(DOMAIN h) + 1]} ELSE {}

MCNext ==
    /\ Len(sched) < MaxSteps
    /\ \/ \E c \in Ctls : \E id \in q[c] :
            \/ Deliver(c, id) /\ Keep /\ Step([k |-> "run", c |-> c, id |-> IdStr(c, id)])
            \/ Begin(c, id) /\ Keep /\ Step([k |-> "begin", c |-> c, id |-> IdStr(c, id)])
       \/ \E a \in DOMAIN infl : Exec(a) /\ Keep /\ Step([k |-> "exec", a |-> a])
       \/ \E n \in NextHandler, req \in Requests :
            /\ IF FineClients THEN ClientStart(n, req) ELSE ClientRequest(n, req)
            /\ Keep
            /\ Step(IF req.kind = "change"
                    THEN [k |-> "set", h |-> n, sync |-> req.sync, ch |-> req.ch, fine |-> FineClients]
                    ELSE [k |-> "rollback", h |-> n, idx |-> req.rb, fine |-> FineClients])
       \/ \E n \in DOMAIN h : (ClientCreate(n) \/ ClientWatch(n)) /\ Keep /\ Step([k |-> "hexec", h |-> n])
       \/ \E t \in Targets :
            /\ budget.connused < Len(ConnSeq) /\ budget.conn > 0
            /\ LET id == ConnSeq[budget.connused + 1] IN
                 /\ ConnUp(t, id)
                 /\ budget' = [budget EXCEPT !.conn = @ - 1, !.connused = @ + 1]
                 /\ Step([k |-> "connup", t |-> t, conn |-> id])
       \/ \E id \in ConnIds : ConnDown(id) /\ Spend("conn") /\ Step([k |-> "conndown", conn |-> id])
       \/ \E t \in Targets : DevRestart(t) /\ Spend("devrestart") /\ Step([k |-> "devrestart", t |-> t])
       \/ \E t \in Targets, code \in FailCodes, n \in 1..2 :
            DevFail(t, code, n) /\ Spend("fail") /\ Step([k |-> "devfail", t |-> t, code |-> code, cnt |-> n])
       \/ Crash /\ Spend("crash") /\ Step([k |-> "crash"])
       \/ Restart /\ Keep /\ Step([k |-> "restart"])

MCSpec == MCInit /\ [][MCNext]_mcvars

-----------------------------------------------------------------------------
(* Export of simulated behaviours (used with -simulate, -workers 1) *)

ExportDir == IF "EXPORT_DIR" \in DOMAIN IOEnv THEN IOEnv.EXPORT_DIR ELSE "."

\* a behaviour is exported when it reaches MaxSteps, or earlier when nothing more can happen
Finished == Len(sched) = MaxSteps \/ (Stable /\ Quiescent /\ NextHandler = {} /\ Len(sched) > 0)

Export ==
    Finished =>
        JsonSerialize(ExportDir \o "/b" \o ToString(TLCGet("stats").traces) \o "_" \o ToString(Len(sched)) \o ".json",
                      [targets |-> Targets, steps |-> sched])
=============================================================================
