------------------------------ MODULE OnosV2MC ------------------------------
(***************************************************************************)
(* Model-checking / simulation harness around OnosV2:                      *)
(*  - bounds on the environment (budget) so that exhaustive runs end;      *)
(*  - a schedule history variable (sched) recording every step in the      *)
(*    format of the Go harness' world.Step, exported as JSON at the end of *)
(*    each simulated behaviour: TLC is the generator of the schedules,     *)
(*    fault placements, crash points and request histories that are        *)
(*    replayed on the real code.                                           *)
(* sched is pure observation; exhaustive configs hide it with VIEW.        *)
(***************************************************************************)
EXTENDS OnosV2Props, PathsSmall, Json, IOUtils

CONSTANTS MaxCrashes, MaxConnEvents, MaxDevRestarts, MaxFailBursts,
          HandlerSeq,  \* handler names in the order they are used
          ConnSeq,     \* connection ids in the order they are used
          MaxSteps,    \* behaviours are cut (and exported) at this length
          FineClients  \* northbound handlers take their two store calls as separate steps

VARIABLES budget, sched

mcvars == <<vars, budget, sched>>
View == <<vars, budget>>

IdStr(c, id) == IF c = "tx" THEN ToString(id) ELSE id

MCInit ==
    /\ Init
    /\ budget = [crash |-> MaxCrashes, conn |-> MaxConnEvents, devrestart |-> MaxDevRestarts, fail |-> MaxFailBursts, connused |-> 0]
    /\ sched = << >>

Step(s) == sched' = Append(sched, s)
Keep == budget' = budget
Spend(f) == budget[f] > 0 /\ budget' = [budget EXCEPT ![f] = @ - 1]

NextHandler == IF Cardinality(DOMAIN h) < Len(HandlerSeq) THEN {HandlerSeq[Cardinality(DOMAIN h) + 1]} ELSE {}

MCNext ==
    /\ Len(sched) < MaxSteps
    /\ \/ \E c \in Ctls : \E id \in q[c] :
            \/ Deliver(c, id) /\ Keep /\ Step([k |-> "run", c |-> c, id |-> IdStr(c, id)])
            \/ Begin(c, id) /\ Keep /\ Step([k |-> "begin", c |-> c, id |-> IdStr(c, id)])
       \/ \E a \in DOMAIN infl : Exec(a) /\ Keep /\ Step([k |-> "exec", a |-> a])
       \/ \E n \in NextHandler, req \in Requests :
            /\ IF FineClients THEN ClientStart(n, req) ELSE ClientRequest(n, req)
            /\ Keep
            /\ Step(IF req.kind = "change"
                    THEN [k |-> "set", h |-> n, sync |-> req.sync, ch |-> req.ch, fine |-> FineClients]
                    ELSE [k |-> "rollback", h |-> n, idx |-> req.rb, fine |-> FineClients])
       \/ \E n \in DOMAIN h : (ClientCreate(n) \/ ClientWatch(n)) /\ Keep /\ Step([k |-> "hexec", h |-> n])
       \/ \E t \in Targets :
            /\ budget.connused < Len(ConnSeq) /\ budget.conn > 0
            /\ LET id == ConnSeq[budget.connused + 1] IN
                 /\ ConnUp(t, id)
                 /\ budget' = [budget EXCEPT !.conn = @ - 1, !.connused = @ + 1]
                 /\ Step([k |-> "connup", t |-> t, conn |-> id])
       \/ \E id \in ConnIds : ConnDown(id) /\ Spend("conn") /\ Step([k |-> "conndown", conn |-> id])
       \/ \E t \in Targets : DevRestart(t) /\ Spend("devrestart") /\ Step([k |-> "devrestart", t |-> t])
       \/ \E t \in Targets, code \in FailCodes, n \in 1..2 :
            DevFail(t, code, n) /\ Spend("fail") /\ Step([k |-> "devfail", t |-> t, code |-> code, cnt |-> n])
       \/ Crash /\ Spend("crash") /\ Step([k |-> "crash"])
       \/ Restart /\ Keep /\ Step([k |-> "restart"])

MCSpec == MCInit /\ [][MCNext]_mcvars

-----------------------------------------------------------------------------
(* Export of simulated behaviours (used with -simulate, -workers 1) *)

ExportDir == IF "EXPORT_DIR" \in DOMAIN IOEnv THEN IOEnv.EXPORT_DIR ELSE "."

\* a behaviour is exported when it reaches MaxSteps, or earlier when nothing more can happen
Finished == Len(sched) = MaxSteps \/ (Stable /\ Quiescent /\ NextHandler = {} /\ Len(sched) > 0)

Export ==
    Finished =>
        JsonSerialize(ExportDir \o "/b" \o ToString(TLCGet("stats").traces) \o "_" \o ToString(Len(sched)) \o ".json",
                      [targets |-> Targets, steps |-> sched])

-----------------------------------------------------------------------------
(* Coverage-directed behaviours (used with exhaustive BFS).                  *)
(* The CONTEXT of a pending reconcile is an abstraction of everything the    *)
(* reconciler reads: phases of the record, of its neighbours and of its      *)
(* transaction, and the order relations between the indexes it compares.     *)
(* While TLC explores the bounded model breadth-first, the first state in    *)
(* which a pending reconcile has a context not seen before is printed with   *)
(* the schedule that leads to it (a shortest witness) plus that reconcile:   *)
(* "one implementation test per distinct transition context".  The harness   *)
(* replays the witnesses on the real code.  Enabled by the environment       *)
(* variable COVER; registers are per worker, duplicates are merged outside.  *)

CoverOn == "COVER" \in DOMAIN IOEnv
Cmp(a, b) == IF a < b THEN "<" ELSE IF a = b THEN "=" ELSE ">"
PhStr(ph) == ph.init \o ph.val \o ph.com \o ph.app \o ph.abt

CtxProp(id) ==
    IF id \notin DOMAIN props THEN <<"prop", "missing">>
    ELSE LET p == props[id]
             pr == PID(p.t, p.prev)
             nx == PID(p.t, p.next)
         IN <<"prop", p.kind, PhStr(p.ph), p.prev = 0, p.next = 0,
              IF p.t \in DOMAIN cfgs
              THEN LET cfg == cfgs[p.t] IN
                   <<Cmp(cfg.proposed, p.i), Cmp(cfg.committed, p.i), Cmp(cfg.committed, p.prev), Cmp(cfg.applied, p.i),
                     Cmp(cfg.applied, p.prev), Cmp(cfg.index, p.i), cfg.state, cfg.master # "", Cmp(cfg.term, cfg.aterm),
                     MasterConn(Pack, cfg, p.t) # NoId, failq[p.t] # << >> >>
              ELSE <<"nocfg">>,
              IF p.prev # 0 /\ pr \in DOMAIN props THEN PhStr(props[pr].ph) ELSE "-",
              IF p.next # 0 /\ nx \in DOMAIN props THEN PhStr(props[nx].ph) ELSE "-",
              IF p.i <= Len(txs) THEN txs[p.i].state ELSE "-",
              IF p.kind = "rollback" /\ p.rb >= 1 /\ p.rb <= Len(txs) /\ PID(p.t, p.rb) \in DOMAIN props
              THEN <<PhStr(props[PID(p.t, p.rb)].ph), p.t \in DOMAIN cfgs /\ cfgs[p.t].index = p.rb>> ELSE <<"-">> >>

CtxTx(i) ==
    IF i < 1 \/ i > Len(txs) THEN <<"tx", "missing">>
    ELSE LET tx == txs[i] IN
         <<"tx", tx.kind, tx.state, PhStr(tx.ph), tx.sync,
           {IF id \in DOMAIN props THEN PhStr(props[id].ph) ELSE "missing" : id \in tx.props},
           Cardinality(tx.props) > 1,
           IF i > 1 THEN <<txs[i - 1].state, txs[i - 1].ph.init>> ELSE <<"-">>,
           i < Len(txs)>>

CtxCfg(t) ==
    IF t \notin DOMAIN cfgs THEN <<"cfg", "missing">>
    ELSE LET cfg == cfgs[t] IN
         <<"cfg", cfg.state, Cmp(cfg.term, cfg.aterm), cfg.master # "", cfg.applied = 0, Cmp(cfg.applied, cfg.committed),
           MasterConn(Pack, cfg, t) # NoId, failq[t] # << >>, Cardinality({cfg.avalues[x].i : x \in DOMAIN cfg.avalues})>>

CtxMast(t) ==
    IF t \notin DOMAIN cfgs THEN <<"mast", "missing">>
    ELSE LET cfg == cfgs[t]
             live == {r \in DOMAIN rels : rels[r] = t}
         IN <<"mast", cfg.master = "", cfg.master \in live, Cardinality(live), cfg.state, Cmp(cfg.term, cfg.aterm)>>

CtxConn(id) == <<"conn", id \in DOMAIN conns, id \in DOMAIN rels>>

CtxOf(c, id) ==
    CASE c = "tx" -> CtxTx(id) [] c = "prop" -> CtxProp(id) [] c = "cfg" -> CtxCfg(id)
      [] c = "mast" -> CtxMast(id) [] c = "conn" -> CtxConn(id)

\* Fine mode: the context of the next persisted effect of an in-flight reconcile - is the record it writes still
\* the one it read (a stale write is refused by the optimistic lock), and what changed under it
CtxExec(a) ==
    LET f == infl[a]
        e == Head(f.plan)
    IN <<"exec", f.c, e.k, Len(f.plan),
         CASE e.k \in {"cfgs", "cfgu"} ->
                IF e.key \notin DOMAIN cfgs THEN <<"gone">>
                ELSE LET cur == cfgs[e.key] IN
                     <<e.rec.state, cur.applied = 0, dev[e.key].vals = EmptyFn, Ver(Pack, "cfg", e.key) # e.ver, cur.term # e.rec.term, cur.master # e.rec.master,
                       cur.committed # e.rec.committed, cur.applied # e.rec.applied, cur.state # e.rec.state,
                       cur.proposed # e.rec.proposed, cur.index # e.rec.index>>
           [] e.k = "prop" ->
                IF e.key \notin DOMAIN props THEN <<"gone">>
                ELSE <<Ver(Pack, "prop", e.key) # e.ver, PhStr(props[e.key].ph), PhStr(e.rec.ph),
                       props[e.key].next # e.rec.next, props[e.key].prev # e.rec.prev>>
           [] e.k = "tx" ->
                <<Ver(Pack, "tx", e.key) # e.ver, txs[e.key].state, e.rec.state, PhStr(txs[e.key].ph), PhStr(e.rec.ph)>>
           [] e.k = "propc" -> <<e.key \in DOMAIN props>>
           [] e.k = "cfgc" -> <<e.key \in DOMAIN cfgs>>
           [] e.k = "dev" -> <<e.tag, e.conn \in DOMAIN conns, failq[e.key] # << >>, Cmp(e.eid, dev[e.key].maxeid),
                               e.key \in DOMAIN cfgs /\ cfgs[e.key].master = e.conn,
                               IF e.key \in DOMAIN cfgs THEN Cmp(cfgs[e.key].term, e.eid) ELSE "-">>
           [] e.k = "plug" -> <<e.valid>>
           [] OTHER -> << >> >>

\* the persistent state a restarting process finds
CtxCrashed ==
    <<"crashed",
      {<<PhStr(props[id].ph), props[id].kind, props[id].prev = 0, props[id].next = 0,
         IF props[id].t \in DOMAIN cfgs
         THEN <<Cmp(cfgs[props[id].t].proposed, props[id].i), Cmp(cfgs[props[id].t].committed, props[id].i),
                Cmp(cfgs[props[id].t].applied, props[id].i)>> ELSE <<"nocfg">> >> : id \in DOMAIN props},
      {<<txs[i].state, PhStr(txs[i].ph), {id \in txs[i].props : id \notin DOMAIN props} # {}>> : i \in DOMAIN txs}>>

ASSUME TLCSet(7, {})

CoverStep(c, id) == IF Fine /\ c \in FineCtls THEN [k |-> "begin", c |-> c, id |-> IdStr(c, id)] ELSE [k |-> "run", c |-> c, id |-> IdStr(c, id)]

Cover ==
    CoverOn =>
        LET pend == IF up THEN UNION {{<<c, id>> : id \in {x \in q[c] : ~Busy(ActorOf(Pack, c, x))}} : c \in Ctls} ELSE {}
            cand == {[ctx |-> CtxOf(x[1], x[2]), step |-> CoverStep(x[1], x[2])] : x \in pend}
                    \cup (IF up THEN {[ctx |-> CtxExec(a), step |-> [k |-> "exec", a |-> a]] : a \in DOMAIN infl} ELSE {})
                    \cup (IF ~up THEN {[ctx |-> CtxCrashed, step |-> [k |-> "restart"]]} ELSE {})
            new  == {x \in cand : x.ctx \notin TLCGet(7)}
        IN new = {} \/
           /\ TLCSet(7, TLCGet(7) \cup {x.ctx : x \in new})
           /\ \A x \in new :
                PrintT(<<"COVER", ToJson([ctx |-> ToString(x.ctx), targets |-> Targets, steps |-> Append(sched, x.step)])>>)
=============================================================================
