------------------------------ MODULE ValueOps ------------------------------
(***************************************************************************)
(* The value-map algorithms of onos-config, transcribed from the Go code   *)
(* (pkg/controller/v2/proposal, pkg/controller/utils, pkg/utils/v2/tree,   *)
(* pkg/store/v2/configuration).  A value map is a function from textual    *)
(* paths to records [v |-> value text, d |-> deleted?, i |-> index].       *)
(*                                                                         *)
(* The Go code works on strings (strings.HasPrefix, LastIndex("/"), sort   *)
(* order).  Those relations are tabulated for a closed universe of paths   *)
(* by tools/gen_paths.py and passed in as constants.  Loops over Go maps   *)
(* take an explicit order argument: the caller quantifies over orders.     *)
(***************************************************************************)
EXTENDS Integers, Sequences, FiniteSets, TLC

CONSTANTS AllPaths,   \* closed universe of textual paths
          GoParent,   \* [AllPaths -> AllPaths \cup {""}]  GetParentPath
          TextPrefix, \* {<<q, p>> : strings.HasPrefix(p, q)}
          ElemPrefix, \* {<<q, p>> : q is p or an ancestor of p at element boundaries}
          Rank        \* [AllPaths -> Nat] byte-wise string order

HasPrefix(p, q) == <<q, p>> \in TextPrefix   \* strings.HasPrefix(p, q)
Covers(q, p)    == <<q, p>> \in ElemPrefix   \* gNMI: q names p or an ancestor of p

Put(f, k, v) == [x \in (DOMAIN f) \cup {k} |-> IF x = k THEN v ELSE f[x]]
Drop(f, ks)  == [x \in (DOMAIN f) \ ks |-> f[x]]
Merge(f, g)  == [x \in (DOMAIN f) \cup (DOMAIN g) |-> IF x \in DOMAIN g THEN g[x] ELSE f[x]]
EmptyMap     == [x \in {} |-> [v |-> "", d |-> FALSE, i |-> 0]]

Tomb(i) == [v |-> "", d |-> TRUE, i |-> i]
Val(v, i) == [v |-> v, d |-> FALSE, i |-> i]

\* all orders (sequences without repetition) over a finite set
Orders(S) == {s \in [1..Cardinality(S) -> S] : \A a, b \in 1..Cardinality(S) : a # b => s[a] # s[b]}

\* the order a sort by path produces
SortedSeq(S) == CHOOSE s \in Orders(S) : \A a, b \in 1..Len(s) : a < b => Rank[s[a]] < Rank[s[b]]

(***************************************************************************)
(* applyChangeToConfig(values, path, value): set the value, then walk up   *)
(* the textual parents and remove the FIRST parent that is a tombstone.    *)
(***************************************************************************)
RECURSIVE FirstDeletedParent(_, _)
FirstDeletedParent(vals, p) ==
    LET par == GoParent[p] IN
    IF par = "" THEN ""
    ELSE IF par \in DOMAIN vals /\ vals[par].d THEN par
    ELSE FirstDeletedParent(vals, par)

ApplyChange(vals, p, val) ==
    LET v1 == Put(vals, p, val)
        dp == FirstDeletedParent(v1, p)
    IN  [vals |-> IF dp = "" THEN v1 ELSE Drop(v1, {dp}),
         dp   |-> dp,
         dv   |-> IF dp = "" THEN val ELSE v1[dp]]

RECURSIVE ApplyAll(_, _, _)
\* apply the changes ch (a value map) to vals in the given order of paths
ApplyAll(vals, ch, order) ==
    IF order = << >> THEN vals
    ELSE ApplyAll(ApplyChange(vals, Head(order), ch[Head(order)]).vals, ch, Tail(order))

(***************************************************************************)
(* AddDeleteChildren(index, changeValues, configStore).  For every deleted *)
(* change value, every config value whose path has the deleted path as a   *)
(* TEXTUAL prefix is marked deleted IN PLACE (index := index) and added to *)
(* the result; later map entries overwrite earlier ones, so the result     *)
(* depends on the iteration order over changeValues.                       *)
(* Returns [upd |-> updated change values, cfg |-> mutated config values]. *)
(***************************************************************************)
RECURSIVE AddDeleteChildrenR(_, _, _, _, _)
AddDeleteChildrenR(index, ch, order, upd, cfg) ==
    IF order = << >> THEN [upd |-> upd, cfg |-> cfg]
    ELSE LET p  == Head(order)
             cv == ch[p]
         IN IF cv.d
            THEN LET kids == {k \in DOMAIN cfg : HasPrefix(k, p) /\ k # p}
                     cfg2 == [k \in DOMAIN cfg |-> IF k \in kids THEN [cfg[k] EXCEPT !.d = TRUE, !.i = index, !.v = ""] ELSE cfg[k]]
                     upd2 == [k \in (DOMAIN upd) \cup kids \cup {p} |->
                                IF k = p THEN cv
                                ELSE IF k \in kids THEN cfg2[k]
                                ELSE upd[k]]
                 IN AddDeleteChildrenR(index, ch, Tail(order), upd2, cfg2)
            ELSE AddDeleteChildrenR(index, ch, Tail(order), Put(upd, p, cv), cfg)

AddDeleteChildren(index, ch, cfg, order) == AddDeleteChildrenR(index, ch, order, EmptyMap, cfg)

(***************************************************************************)
(* PrunePathValues(paths, leaveTopDeletedPaths): sort by path; a deleted   *)
(* path starts a "deleting prefix"; everything having it as TEXTUAL prefix *)
(* is dropped; the first path outside it resets the prefix.                *)
(* Returns the set of surviving paths.                                     *)
(***************************************************************************)
RECURSIVE PruneR(_, _, _, _, _)
PruneR(vals, sorted, leaveTop, prefix, acc) ==
    IF sorted = << >> THEN acc
    ELSE LET p == Head(sorted)
             starts == vals[p].d /\ (prefix = "" \/ ~HasPrefix(p, prefix))
             prefix1 == IF starts THEN p ELSE prefix
             acc1 == IF starts /\ leaveTop THEN acc \cup {p} ELSE acc
             outside == prefix1 = "" \/ ~HasPrefix(p, prefix1)
         IN PruneR(vals, Tail(sorted), leaveTop,
                   IF outside THEN "" ELSE prefix1,
                   IF outside THEN acc1 \cup {p} ELSE acc1)

PrunedPaths(vals, leaveTop) == PruneR(vals, SortedSeq(DOMAIN vals), leaveTop, "", {})
PruneMap(vals, leaveTop) == [p \in PrunedPaths(vals, leaveTop) |-> vals[p]]

\* leaves of the JSON document BuildTree produces (values only)
DocLeaves(vals) == LET keep == {p \in PrunedPaths(vals, FALSE) : ~vals[p].d}
                   IN [p \in keep |-> vals[p].v]

(***************************************************************************)
(* configurationStore.store(map, values): only the keys present in values  *)
(* are examined; absent ones are inserted if they survive pruning (top     *)
(* tombstones survive), present ones are removed if they do not survive,   *)
(* and overwritten only if the index differs.                              *)
(***************************************************************************)
StoreValues(stored, vals) ==
    LET pruned == PrunedPaths(vals, TRUE)
        ins == {p \in DOMAIN vals : p \notin DOMAIN stored /\ p \in pruned}
        rem == {p \in DOMAIN vals : p \in DOMAIN stored /\ p \notin pruned}
        upd == {p \in DOMAIN vals : p \in DOMAIN stored /\ p \in pruned /\ vals[p].i # stored[p].i}
    IN [p \in ((DOMAIN stored) \ rem) \cup ins |->
           IF p \in ins \/ p \in upd THEN vals[p] ELSE stored[p]]

(***************************************************************************)
(* Reference semantics (what the properties are stated in): the live view  *)
(* of a value map, and gNMI update / delete on a plain leaf map.           *)
(***************************************************************************)
LiveView(vals) == LET keep == {p \in DOMAIN vals : ~vals[p].d} IN [p \in keep |-> vals[p].v]

\* change: path -> value text, "DEL" = delete. Deletes first, then updates (gNMI order).
RefApply(leaves, ch) ==
    LET dels == {p \in DOMAIN ch : ch[p] = "DEL"}
        upds == (DOMAIN ch) \ dels
        kept == {p \in DOMAIN leaves : ~\E q \in dels : Covers(q, p)}
    IN [p \in kept \cup upds |-> IF p \in upds THEN ch[p] ELSE leaves[p]]
=============================================================================
