\* GENERATED by tools/gen_v2_configs.py
CONSTANTS
 Targets <- S_Targets
 ConnIds <- S_ConnIds
 ConnSeq <- S_ConnSeq
 Requests <- S_Requests
 HandlerNames <- S_HandlerNames
 HandlerSeq <- S_HandlerSeq
 FailCodes <- S_FailCodes
 MaxCrashes = 1
 MaxConnEvents = 0
 MaxDevRestarts = 0
 MaxFailBursts = 0
 MaxSteps = 1000000
 Fine = TRUE
 FineCtls = {"tx", "prop", "cfg", "mast", "conn"}
 FineClients = FALSE
 AllPaths <- PU_All
 GoParent <- PU_GoParent
 TextPrefix <- PU_TextPrefix
 ElemPrefix <- PU_ElemPrefix
 Rank <- PU_Rank
INIT MCInit
NEXT MCNext
CHECK_DEADLOCK FALSE
VIEW View
INVARIANTS C07_MergedOnce C07_NoneSkipped C07_SameDecision C07_SameConfiguration C07_NotBlocked C07_DeviceConverged Cover
