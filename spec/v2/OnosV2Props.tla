---------------------------- MODULE OnosV2Props ----------------------------
(***************************************************************************)
(* The listed properties C01, C02, C04 - C11 as invariants and action      *)
(* properties over the state of OnosV2.  One source of truth: the same     *)
(* definitions are checked by TLC on the specification (OnosV2MC) and on   *)
(* every state / step recorded from the real code (OnosV2Trace).           *)
(*                                                                         *)
(* Naming: Cnn_<Clause>.  Invariants are state predicates; the action      *)
(* properties are written [][A]_vars and named Cnn_..._Act.                *)
(***************************************************************************)
EXTENDS OnosV2

-----------------------------------------------------------------------------
(* Vocabulary *)

TxAt(i) == txs[i]
IsChange(i) == txs[i].kind = "change"

\* final states: applied, or failed with any abort complete
Terminal(tx) == \/ tx.state = "APPLIED"
                \/ tx.state = "FAILED" /\ tx.ph.abt \in {"N", "D"}
AllTerminal == \A i \in DOMAIN txs : Terminal(txs[i])

OkMerges == {k \in DOMAIN mergelog : mergelog[k].ok}
Merged(t, i) == \E k \in OkMerges : mergelog[k].t = t /\ mergelog[k].i = i

\* the targets a transaction names
TargetsOf(i) == IF txs[i].kind = "change" THEN DOMAIN txs[i].ch
                ELSE IF txs[i].rb \in DOMAIN txs /\ txs[txs[i].rb].kind = "change" THEN DOMAIN txs[txs[i].rb].ch
                ELSE {}

\* what a northbound Get returns for a target: the live leaves of the stored configuration
GetView(t) == IF t \in DOMAIN cfgs THEN VO!LiveView(cfgs[t].values) ELSE EmptyFn

\* the connection named as master is alive and has its relation
Connected(t) == /\ t \in DOMAIN cfgs
                /\ cfgs[t].master # "" /\ cfgs[t].master \in DOMAIN conns /\ cfgs[t].master \in DOMAIN rels
                /\ conns[cfgs[t].master] = t
Synchronized(t) == Connected(t) /\ cfgs[t].state = "SYNCHRONIZED" /\ cfgs[t].aterm = cfgs[t].term
DeviceWilling(t) == failq[t] = << >>

\* all ids a controller could be asked to reconcile
IdUniverse(c) ==
    CASE c = "tx" -> DOMAIN txs
      [] c = "prop" -> DOMAIN props
      [] c = "cfg" -> DOMAIN cfgs
      [] c = "mast" -> DOMAIN cfgs
      [] c = "conn" -> (DOMAIN conns) \cup (DOMAIN rels)

HasEffect(plan) == \E n \in DOMAIN plan : plan[n].k \notin {"ret", "err", "plug"}

\* no reconcile of any record would perform a persisted effect (pure re-queues are allowed)
Stable == up /\ infl = EmptyFn /\
          \A c \in Ctls : \A id \in IdUniverse(c) \cup q[c] : \A plan \in Plans(Pack, c, id) : ~HasEffect(plan)

-----------------------------------------------------------------------------
(* C01 - a multi-target Set is committed on all of its targets or on none *)

\* a change is merged into a configuration only if the whole transaction was validated and committing
C01_NoPartialCommit ==
    \A k \in OkMerges : LET m == mergelog[k] IN
        m.i \in DOMAIN txs =>
            /\ txs[m.i].ph.com # "N"
            /\ \A id \in txs[m.i].props : id \in DOMAIN props => props[id].ph.val = "D"

\* a transaction that failed before commit altered no configuration
C01_FailedNeverMerged ==
    \A i \in DOMAIN txs : (txs[i].ph.val = "F" \/ txs[i].ph.init = "F") => \A t \in (DOMAIN dev) : ~Merged(t, i)

\* once idle, all named targets or none
C01_AtomicAtQuiescenceAt(st) ==
    st => \A i \in DOMAIN txs :
        (IsChange(i) /\ Terminal(txs[i])) =>
            \/ \A t \in DOMAIN txs[i].ch : Merged(t, i)
            \/ \A t \in DOMAIN txs[i].ch : ~Merged(t, i)
C01_AtomicAtQuiescence == C01_AtomicAtQuiescenceAt(Stable)

\* the last change merged on a target is what Get returns for the paths it names
C01_CommittedIsReadableAt(st) ==
    st => \A t \in DOMAIN cfgs :
        LET ks == {k \in OkMerges : mergelog[k].t = t} IN
        ks # {} =>
            LET last == CHOOSE k \in ks : \A k2 \in ks : k2 <= k
                i == mergelog[last].i
            IN (i \in DOMAIN txs /\ IsChange(i) /\ t \in DOMAIN txs[i].ch) =>
                 \A path \in DOMAIN txs[i].ch[t] :
                    IF txs[i].ch[t][path] = "DEL"
                    THEN \A p2 \in DOMAIN GetView(t) : ~VO!Covers(path, p2) \/ p2 \in DOMAIN txs[i].ch[t]
                    ELSE path \in DOMAIN GetView(t) /\ GetView(t)[path] = txs[i].ch[t][path]
C01_CommittedIsReadable == C01_CommittedIsReadableAt(Stable)

\* a rejected share fails the request as a whole
C01_ReportedFailed ==
    \A n \in DOMAIN h : (h[n].st = "done" /\ h[n].tx \in DOMAIN txs /\ txs[h[n].tx].ph.val = "F") => ~h[n].ok

-----------------------------------------------------------------------------
(* C02 - changes reach a target's configuration and device in log order *)

C02_MergeOrdered ==
    \A k1, k2 \in OkMerges : (k1 < k2 /\ mergelog[k1].t = mergelog[k2].t) => mergelog[k1].i < mergelog[k2].i

Applies == {k \in DOMAIN devlog : devlog[k].ctl = "prop"}
\* the transaction index of a proposal id known to the state
IdxOf(id) == IF id \in DOMAIN props THEN props[id].i ELSE 0

C02_ApplyOrdered ==
    \A k1, k2 \in Applies : (k1 < k2 /\ devlog[k1].t = devlog[k2].t) => IdxOf(devlog[k1].id) <= IdxOf(devlog[k2].id)

\* finished applying (successfully or with a recorded failure), or never going to apply
\* (the applied index of the configuration moving past a proposal is what finishes it for its successors: after a
\* crash between the configuration write and the proposal write, the proposal's own record lags behind)
FinishedApplying(id) == LET p == props[id] IN
    \/ p.ph.app \in {"D", "F"} \/ p.ph.abt # "N" \/ p.ph.val = "F"
    \/ p.t \in DOMAIN cfgs /\ cfgs[p.t].applied >= p.i

\* evaluated in the state right after the send (and ever after): every earlier proposal of that target is finished
C02_ApplyAfterPredecessors ==
    \A k \in Applies : LET e == devlog[k] IN
        e.id \in DOMAIN props =>
            \A id2 \in DOMAIN props :
                (props[id2].t = e.t /\ props[id2].i < props[e.id].i) => FinishedApplying(id2)

C02_ApplyOnlyMerged ==
    \A k \in Applies : LET e == devlog[k] IN e.id \in DOMAIN props => Merged(e.t, props[e.id].i)

-----------------------------------------------------------------------------
(* C04 - a connected, synchronized device holds the stored configuration *)

ApplyFailed(t, i) == PID(t, i) \in DOMAIN props /\ props[PID(t, i)].ph.app = "F"

C04_ConvergedAt(st) ==
    (st /\ AllTerminal) =>
        \A t \in DOMAIN cfgs : (Synchronized(t) /\ DeviceWilling(t)) =>
            LET stored == GetView(t)
                good == {path \in DOMAIN stored : ~ApplyFailed(t, cfgs[t].values[path].i)}
                \* leaves deleted or overwritten only by changes whose apply failed may linger on the device
                anyFailed == \E id \in DOMAIN props : props[id].t = t /\ props[id].ph.app = "F"
                \* ... but only values that were really applied once: the value of a change the device accepted
                \* (or anything, if a rollback was applied) - never a value that only a refused change carried
                lingering(path) == anyFailed /\ \E id \in DOMAIN props :
                                      /\ props[id].t = t /\ props[id].ph.app = "D"
                                      /\ \/ props[id].kind = "rollback"
                                         \/ (path \in DOMAIN props[id].ch /\ props[id].ch[path] = dev[t].vals[path])
            IN /\ \A path \in good : path \in DOMAIN dev[t].vals /\ dev[t].vals[path] = stored[path]
               /\ \A path \in DOMAIN dev[t].vals : (path \in good /\ dev[t].vals[path] = stored[path]) \/ lingering(path)
C04_Converged == C04_ConvergedAt(Stable)

-----------------------------------------------------------------------------
(* C05 - nothing becomes configuration without passing the model *)

PlugOK(id) == \E k \in DOMAIN pluglog : pluglog[k].id = id /\ pluglog[k].valid

C05_ValidatedBeforeMerged ==
    \A k \in OkMerges : PlugOK(mergelog[k].by)

\* list-key leaves appear in documents without being stored values: compare modulo them
NoKeyLeaves(f) == f

\* the document the plugin accepted is, leaf for leaf, what becomes readable at the merge
C05_ValidatedIsReadable ==
    \A k \in OkMerges : LET m == mergelog[k]
                            ks == {j \in DOMAIN pluglog : pluglog[j].id = m.by /\ pluglog[j].valid}
                        IN ks # {} => \E j \in ks : NoKeyLeaves(pluglog[j].leaves) = NoKeyLeaves(m.after)

C05_RejectedChangesNothing ==
    \A j \in DOMAIN pluglog : ~pluglog[j].valid =>
        LET id == pluglog[j].id IN
        id \in DOMAIN props => (~PlugOK(id) => ~Merged(props[id].t, props[id].i))

-----------------------------------------------------------------------------
(* C06 - rolling back the latest change restores exactly the previous state *)

\* the change a target's configuration reflects after the first n merges of the log
RECURSIVE ReflectStack(_, _)
ReflectStack(t, n) ==
    IF n = 0 THEN << >>
    ELSE LET m == mergelog[n]
             st == ReflectStack(t, n - 1)
         IN IF ~m.ok \/ m.t # t THEN st
            ELSE IF m.by \in DOMAIN props /\ props[m.by].kind = "rollback"
                 THEN IF st # << >> THEN SubSeq(st, 1, Len(st) - 1) ELSE st
                 ELSE Append(st, [i |-> m.i, before |-> m.before])

\* a rollback is merged only for the change the configuration currently reflects, and restores its pre-image
C06_RollbackRestores ==
    \A k \in OkMerges : LET m == mergelog[k] IN
        (m.by \in DOMAIN props /\ props[m.by].kind = "rollback") =>
            LET st == ReflectStack(m.t, k - 1) IN
            /\ st # << >>
            /\ st[Len(st)].i = props[m.by].rb
            /\ m.after = st[Len(st)].before

\* rollbacks of anything else are refused and alter nothing
C06_RollbackRefused ==
    \A i \in DOMAIN txs : (txs[i].kind = "rollback" /\ Terminal(txs[i])) =>
        LET rb == txs[i].rb
            bad == rb \notin DOMAIN txs \/ rb >= i \/ txs[rb].kind = "rollback"
        IN bad => (txs[i].state = "FAILED" /\ \A t \in (DOMAIN dev) : ~Merged(t, i))

-----------------------------------------------------------------------------
(* C07 - a crash loses nothing and repeats nothing *)

C07_MergedOnce ==
    \A k1, k2 \in OkMerges : (mergelog[k1].t = mergelog[k2].t /\ mergelog[k1].i = mergelog[k2].i) => k1 = k2

C07_NoneSkippedAt(st) ==
    st => \A i \in DOMAIN txs :
        (txs[i].ph.com = "D" /\ txs[i].state # "FAILED") => \A t \in TargetsOf(i) : Merged(t, i)
C07_NoneSkipped == C07_NoneSkippedAt(Stable)

\* the crash-free outcome of a log is a function of its content (sequential reference semantics)
RECURSIVE RefRun(_)
RefRun(n) ==
    IF n = 0 THEN [cfg |-> [t \in (DOMAIN dev) |-> EmptyFn], stack |-> [t \in (DOMAIN dev) |-> << >>], out |-> << >>]
    ELSE LET R == RefRun(n - 1)
             tx == txs[n]
         IN IF tx.kind = "change" THEN
                LET cand == [t \in DOMAIN tx.ch |-> VO!RefApply(R.cfg[t], tx.ch[t])]
                    valid == \A t \in DOMAIN tx.ch : \A path \in DOMAIN cand[t] : ~IsInvalidValue(cand[t][path])
                    rejs == {RejectCode(tx.ch[t][path]) : t \in DOMAIN tx.ch, path \in UNION {DOMAIN tx.ch[t2] : t2 \in DOMAIN tx.ch}}
                IN IF ~valid THEN [R EXCEPT !.out = Append(@, "FAILED")]
                   ELSE [cfg |-> [t \in (DOMAIN dev) |-> IF t \in DOMAIN tx.ch THEN cand[t] ELSE R.cfg[t]],
                         stack |-> [t \in (DOMAIN dev) |-> IF t \in DOMAIN tx.ch THEN Append(R.stack[t], [i |-> n, before |-> R.cfg[t]]) ELSE R.stack[t]],
                         out |-> Append(R.out, "COMMITTED")]
            ELSE
                LET rb == tx.rb
                    okrb == /\ rb \in 1..(n - 1) /\ txs[rb].kind = "change"
                            /\ \A t \in DOMAIN txs[rb].ch : R.stack[t] # << >> /\ R.stack[t][Len(R.stack[t])].i = rb
                IN IF ~okrb THEN [R EXCEPT !.out = Append(@, "FAILED")]
                   ELSE [cfg |-> [t \in (DOMAIN dev) |-> IF t \in DOMAIN txs[rb].ch THEN R.stack[t][Len(R.stack[t])].before ELSE R.cfg[t]],
                         stack |-> [t \in (DOMAIN dev) |-> IF t \in DOMAIN txs[rb].ch THEN SubSeq(R.stack[t], 1, Len(R.stack[t]) - 1) ELSE R.stack[t]],
                         out |-> Append(R.out, "COMMITTED")]

\* whether the reference run commits transaction i (the apply outcome additionally depends on the device)
RefCommits(i) == RefRun(Len(txs)).out[i] = "COMMITTED"

\* every accepted transaction reaches the commit / fail decision it has without a crash
C07_SameDecisionAt(st) ==
    (st /\ AllTerminal) => \A i \in DOMAIN txs :
        (RefCommits(i) <=> (txs[i].ph.com = "D"))
C07_SameDecision == C07_SameDecisionAt(Stable)

\* and the stored configurations end as the sequential reference says
C07_SameConfigurationAt(st) ==
    (st /\ AllTerminal) => \A t \in (DOMAIN dev) : GetView(t) = RefRun(Len(txs)).cfg[t]
C07_SameConfiguration == C07_SameConfigurationAt(Stable)

-----------------------------------------------------------------------------
(* C08 - every Set / rollback is answered, truthfully *)

C08_TruthfulSuccess ==
    \A n \in DOMAIN h : (h[n].st = "done" /\ h[n].ok) =>
        /\ h[n].tx \in DOMAIN txs
        /\ IF h[n].sync THEN txs[h[n].tx].ph.app = "D" ELSE txs[h[n].tx].ph.com = "D"

C08_TruthfulFailure ==
    \A n \in DOMAIN h : (h[n].st = "done" /\ ~h[n].ok /\ h[n].tx \in DOMAIN txs) =>
        /\ txs[h[n].tx].state = "FAILED"
        /\ h[n].code = CodeOfClass(txs[h[n].tx].fail)

\* what the handler waits for has not already happened
WaitOver(hr) == LET tx == txs[hr.tx] IN
    \/ tx.state = "FAILED"
    \/ ~hr.sync /\ tx.ph.com = "D"
    \/ hr.sync /\ tx.ph.app = "D"

C08_NoHang ==
    \A n \in DOMAIN h : (h[n].st = "waiting" /\ h[n].tx \in DOMAIN txs) => ~WaitOver(h[n])

C08_ResponseContent ==
    \A n \in DOMAIN h : (h[n].st = "done" /\ h[n].ok) =>
        /\ h[n].ridx = h[n].tx /\ h[n].rown
        /\ h[n].kind = "set" => h[n].results = ResultsOf(h[n].ch)

-----------------------------------------------------------------------------
(* C09 - controllers never strand a transaction *)

\* no pending work => fixed point
C09_QuiescentIsFixpoint == Quiescent => Stable

\* at a fixed point with every named target reachable, every transaction is final
NamedTargetsReady == \A i \in DOMAIN txs : ~Terminal(txs[i]) =>
                        \A t \in TargetsOf(i) : (t \in DOMAIN cfgs => Synchronized(t) /\ DeviceWilling(t))
C09_AllTerminalAt(st) == (st /\ NamedTargetsReady) => AllTerminal
C09_AllTerminal == C09_AllTerminalAt(Stable)
\* C07: later work is not blocked by a crash - the same formula, evaluated on behaviours with crashes
C07_NotBlockedAt(st) == C09_AllTerminalAt(st)
C07_NotBlocked == C07_NotBlockedAt(Stable)
C07_DeviceConvergedAt(st) == C04_ConvergedAt(st)
C07_DeviceConverged == C07_DeviceConvergedAt(Stable)

-----------------------------------------------------------------------------
(* C10 - only the current master writes, in its term, after re-synchronising *)

C10_TermMonotone_Act ==
    \A t \in DOMAIN cfgs : t \in DOMAIN cfgs' => cfgs'[t].term >= cfgs[t].term

C10_NewTermOnReassign_Act ==
    \A t \in DOMAIN cfgs : (t \in DOMAIN cfgs' /\ cfgs'[t].master # cfgs[t].master /\ cfgs'[t].master # "") =>
        cfgs'[t].term > cfgs[t].term

NewDevEntries == {k \in DOMAIN devlog' : k > Len(devlog)}

\* every write carries the current term and travels over the current master's connection
C10_WriteCarriesTerm_Act ==
    \A k \in NewDevEntries : LET e == devlog'[k] IN
        e.t \in DOMAIN cfgs => (e.eid = cfgs[e.t].term /\ e.conn = cfgs[e.t].master)

\* no new change is sent in a term before the configuration has been re-synchronised in that term
C10_SyncBeforeApply_Act ==
    \A k \in NewDevEntries : LET e == devlog'[k] IN
        (e.ctl = "prop" /\ e.t \in DOMAIN cfgs) =>
            (cfgs[e.t].state = "SYNCHRONIZED" /\ cfgs[e.t].aterm = e.eid)

C10_Acts == [][C10_TermMonotone_Act /\ C10_NewTermOnReassign_Act /\ C10_WriteCarriesTerm_Act /\ C10_SyncBeforeApply_Act]_vars

\* within one term of one device boot all writes use one connection
C10_OneMasterPerTerm ==
    \A k1, k2 \in DOMAIN devlog :
        (devlog[k1].t = devlog[k2].t /\ devlog[k1].eid = devlog[k2].eid) => devlog[k1].conn = devlog[k2].conn

-----------------------------------------------------------------------------
(* C11 - a device refusal fails that change only, and only real refusals *)

IsRefusal(code) == code # 0 /\ ~IsTransientCode(code) /\ ~IsDeniedCode(code)

\* an apply fails only because the device refused it, with the device's class
C11_OnlyRealRefusalsFail ==
    \A id \in DOMAIN props : props[id].ph.app = "F" =>
        \E k \in Applies : devlog[k].id = id /\ IsRefusal(devlog[k].code) /\ props[id].fail = ClassOfCode(devlog[k].code)

\* and the transaction reports that class
C11_TxReportsClass ==
    \A i \in DOMAIN txs : txs[i].ph.app = "F" =>
        \E id \in txs[i].props : id \in DOMAIN props /\ props[id].ph.app = "F" /\ props[id].fail = txs[i].fail

\* a refused change does fail (it is not silently retried or marked applied)
C11_RefusalFailsAt(st) ==
    \* (the process may stop between the device's answer and its recording: the change is then sent, and refused,
    \* again once the target is connected and synchronized - until then it is still being applied, never applied)
    st => \A k \in Applies : (IsRefusal(devlog[k].code) /\ devlog[k].id \in DOMAIN props) =>
        LET p == props[devlog[k].id] IN
        \/ p.ph.app = "F"
        \/ p.ph.app = "I" /\ ~(p.t \in DOMAIN cfgs /\ Synchronized(p.t) /\ DeviceWilling(p.t))
C11_RefusalFails == C11_RefusalFailsAt(Stable)
=============================================================================
