---------------------------- MODULE OnosV2Trace ----------------------------
(***************************************************************************)
(* Trace validation.  A trace file is the concatenation of traces recorded *)
(* by the harness from the REAL code: one JSON line per scheduler step     *)
(* holding the complete abstract state projected from the real records     *)
(* after that step.  The behaviour TLC explores is exactly the recorded    *)
(* one (every variable is bound to the logged state), so                   *)
(*   - every clause of OnosV2Props is evaluated by TLC on every REAL state *)
(*     / step: that is the verdict (reported as VIOLATION lines);          *)
(*   - every recorded step is checked to be a step of the specification    *)
(*     (Next): that is the binding (DRIFT lines: diagnostics, never a      *)
(*     verdict).                                                           *)
(***************************************************************************)
EXTENDS OnosV2Props, Json, IOUtils, PathsSmall, TraceSel

TraceFile == IF "TRACE" \in DOMAIN IOEnv THEN IOEnv.TRACE ELSE "trace.ndjson"
\* TLCEval: evaluate once and cache (otherwise the file is parsed again at every reference)
Trace == TLCEval(ndJsonDeserialize(TraceFile))

VARIABLES l,      \* index of the trace line the current state was read from
          probe,  \* observation part of the line: [obs, get, quiet, spin, n, act]
          viol,   \* names of the action clauses violated by the step leading to this state
          drift   \* the step leading to this state is not a step of the specification

tvars == <<vars, l, probe, viol, drift>>

-----------------------------------------------------------------------------
(* JSON -> specification state *)

TxIdsOf(seq, n) == {i \in 0..(n + 1) : ToString(i) \in Range(seq)}

TxOf(r) == [i |-> r.i, kind |-> r.kind, rb |-> r.rb, sync |-> r.sync, ser |-> r.ser, ch |-> r.ch,
            state |-> r.state, ph |-> r.ph, props |-> Range(r.props), fail |-> r.fail]

PropOf(r) == [t |-> r.t, i |-> r.i, kind |-> r.kind, rb |-> r.rb, ch |-> r.ch, ph |-> r.ph,
              prev |-> r.prev, next |-> r.next, rbidx |-> r.rbidx, rbvals |-> r.rbvals,
              fail |-> r.fail, term |-> r.term]

CfgOf(r) == [index |-> r.index, proposed |-> r.proposed, committed |-> r.committed, applied |-> r.applied,
             state |-> r.state, master |-> r.master, term |-> r.term, amaster |-> r.amaster, aterm |-> r.aterm,
             values |-> r.values, avalues |-> r.avalues]

HOf(r) == [kind |-> r.kind, sync |-> r.sync, rb |-> r.rb, ch |-> r.ch, st |-> r.st, tx |-> r.tx,
           ok |-> r.ok, code |-> r.code, ridx |-> r.ridx, rown |-> r.rown, results |-> Range(r.results)]

DevEntryOf(r) == [t |-> r.t, ctl |-> r.ctl, id |-> r.id, conn |-> r.conn, eid |-> r.eid,
                  upd |-> r.upd, del |-> Range(r.del), code |-> r.code, boot |-> r.boot]

VersOf(L) ==
    LET txk == {<<"tx", L.txs[n].i>> : n \in DOMAIN L.txs}
        prk == {<<"prop", id>> : id \in DOMAIN L.props}
        cfk == {<<"cfg", t>> : t \in DOMAIN L.cfgs}
    IN [k \in txk \cup prk \cup cfk |->
          IF k[1] = "tx" THEN L.txs[k[2]].ver
          ELSE IF k[1] = "prop" THEN L.props[k[2]].ver
          ELSE L.cfgs[k[2]].ver]

QOf(L) == [c \in Ctls |-> IF c = "tx" THEN TxIdsOf(L.q[c], Len(L.txs)) ELSE Range(L.q[c])]

ProbeOf(L) == [obs |-> L.obs, get |-> L.get, quiet |-> L.quiet, spin |-> L.spin, n |-> L.probe.n, act |-> L.act.k, overrun |-> L.overrun]

\* bind every specification variable (primed) to line n; the history variables grow by the line's deltas
Bind(n, fresh) ==
    LET L == Trace[n] IN
    /\ up' = L.up
    /\ txs' = [k \in DOMAIN L.txs |-> TxOf(L.txs[k])]
    /\ props' = [id \in DOMAIN L.props |-> PropOf(L.props[id])]
    /\ cfgs' = [t \in DOMAIN L.cfgs |-> CfgOf(L.cfgs[t])]
    /\ vers' = VersOf(L)
    /\ rels' = L.rels
    /\ conns' = L.conns
    /\ dev' = [t \in DOMAIN L.dev |-> [vals |-> L.dev[t].vals, boot |-> L.dev[t].boot, maxeid |-> L.dev[t].maxeid]]
    /\ failq' = [t \in DOMAIN L.dev |-> L.dev[t].failq]
    /\ q' = QOf(L)
    \* reconciles in flight (fine-grained steps): what they will still do is not observable, that they are
    \* in flight is (the state is not quiescent)
    /\ infl' = [a \in Range(L.busy) |-> [c |-> "?", id |-> "?", plan |-> << >>]]
    /\ h' = [n2 \in DOMAIN L.h |-> HOf(L.h[n2])]
    /\ devlog' = (IF fresh THEN << >> ELSE devlog) \o [k \in DOMAIN L.devlog |-> DevEntryOf(L.devlog[k])]
    /\ pluglog' = (IF fresh THEN << >> ELSE pluglog) \o [k \in DOMAIN L.plug |-> [id |-> L.plug[k].id, leaves |-> L.plug[k].leaves, valid |-> L.plug[k].valid]]
    /\ mergelog' = (IF fresh THEN << >> ELSE mergelog) \o
          [k \in DOMAIN L.merges |->
             LET m == L.merges[k]
                 before == IF ~fresh /\ m.t \in DOMAIN cfgs THEN VO!LiveView(cfgs[m.t].values) ELSE EmptyFn
             IN [t |-> m.t, i |-> m.i, by |-> m.by, ok |-> m.ok, before |-> before,
                 after |-> IF m.ok THEN VO!LiveView(L.cfgs[m.t].values) ELSE before]]
    /\ probe' = ProbeOf(L)
    /\ l' = n

TraceInit ==
    /\ l = 0
    /\ Init
    /\ probe = [obs |-> FALSE, get |-> EmptyFn, quiet |-> FALSE, spin |-> FALSE, n |-> 0, act |-> "none", overrun |-> FALSE]
    /\ viol = {}
    /\ drift = FALSE

-----------------------------------------------------------------------------
(* Step conformance: every recorded step is a step of the specification.   *)
(* Lines that start a new trace re-initialise; observation lines (drain,   *)
(* observe, probe) and skipped hints stutter.  The constants of the        *)
(* environment actions (targets, requests, connection ids, ...) are        *)
(* computed from the replayed scenarios by the checker and passed through  *)
(* the generated module TraceSel.                                          *)

IsReset == l' # l /\ Trace[l'].act.k = "init"

\* the harness' probe reconciles every record once more, pending or not
IsForce == Trace[l'].act.k = "force" /\ \E c \in Ctls : \E id \in IdUniverse(c) : Force(c, id)

Conformance == [][Next \/ IsReset \/ IsForce]_vars

-----------------------------------------------------------------------------
(* Verdicts.  The clauses to evaluate are selected by the generated module *)
(* TraceSel.                                                               *)

\* real observations that exist only in traces:
\* the real northbound Get equals the live view of the stored configuration
T_GetIsLiveView == probe.obs => \A t \in DOMAIN probe.get : probe.get[t] = GetView(t)
\* the real quiescence probe (every record reconciled once more) caused no effect
T_ProbeClean == probe.act = "probe" => probe.n = 0

\* On real traces "nothing more happens" is an OBSERVATION: the drain of the real work sets ended with nothing pending
\* (quiet) or with every pending id reconciled without any effect since the last effect (spin).  The clauses that
\* speak about the idle system are evaluated where the specification says the state is stable OR the real code
\* was observed at its fixed point - a change that makes the real controllers stop early must not make them vacuous.
RealFixpoint == probe.act = "drain" /\ (probe.quiet \/ probe.spin) /\ ~probe.overrun /\ up /\ infl = EmptyFn
\* the real controllers come to rest: a drain of the real work sets (1500 reconciles) ends at a fixed point
T_DrainTerminates == ~probe.overrun
\* once the real controllers are at rest, a target whose master connection is alive has been re-synchronized: the
\* re-push of what was applied cannot be refused (only accepted values are ever recorded as applied)
T_SyncCompletes == RealFixpoint => \A t \in DOMAIN cfgs :
                      (cfgs[t].master # "" /\ MasterConn(Pack, cfgs[t], t) # NoId /\ failq[t] = << >>) =>
                          (cfgs[t].state = "SYNCHRONIZED" /\ cfgs[t].aterm = cfgs[t].term)
TStable == Stable \/ RealFixpoint

StateNames == {"C01_NoPartialCommit", "C01_FailedNeverMerged", "C01_AtomicAtQuiescence", "C01_CommittedIsReadable",
               "C01_ReportedFailed", "C02_MergeOrdered", "C02_ApplyOrdered", "C02_ApplyAfterPredecessors",
               "C02_ApplyOnlyMerged", "C04_Converged", "C05_ValidatedBeforeMerged", "C05_ValidatedIsReadable",
               "C05_RejectedChangesNothing", "C06_RollbackRestores", "C06_RollbackRefused", "C07_MergedOnce",
               "C07_NoneSkipped", "C07_NotBlocked", "C06_RollbackCompletes", "C09_ComesToRest", "C04_ComesToRest", "C04_SyncCompletes", "C07_DeviceConverged", "C07_SameDecision", "C07_SameConfiguration", "C08_TruthfulSuccess",
               "C08_TruthfulFailure", "C08_NoHang", "C08_ResponseContent", "C09_QuiescentIsFixpoint",
               "C09_AllTerminal", "C09_ProbeClean", "C10_OneMasterPerTerm", "C11_OnlyRealRefusalsFail",
               "C11_TxReportsClass", "C11_RefusalFails", "C03_GetIsLiveView"}

StateClause(name) ==
    CASE name = "C01_NoPartialCommit" -> C01_NoPartialCommit
      [] name = "C01_FailedNeverMerged" -> C01_FailedNeverMerged
      [] name = "C01_AtomicAtQuiescence" -> C01_AtomicAtQuiescenceAt(TStable)
      [] name = "C01_CommittedIsReadable" -> C01_CommittedIsReadableAt(TStable)
      [] name = "C01_ReportedFailed" -> C01_ReportedFailed
      [] name = "C02_MergeOrdered" -> C02_MergeOrdered
      [] name = "C02_ApplyOrdered" -> C02_ApplyOrdered
      [] name = "C02_ApplyAfterPredecessors" -> C02_ApplyAfterPredecessors
      [] name = "C02_ApplyOnlyMerged" -> C02_ApplyOnlyMerged
      [] name = "C04_Converged" -> C04_ConvergedAt(TStable)
      [] name = "C05_ValidatedBeforeMerged" -> C05_ValidatedBeforeMerged
      [] name = "C05_ValidatedIsReadable" -> C05_ValidatedIsReadable
      [] name = "C05_RejectedChangesNothing" -> C05_RejectedChangesNothing
      [] name = "C06_RollbackRestores" -> C06_RollbackRestores
      [] name = "C06_RollbackRefused" -> C06_RollbackRefused
      [] name = "C07_MergedOnce" -> C07_MergedOnce
      [] name = "C07_NoneSkipped" -> C07_NoneSkippedAt(TStable)
      [] name = "C07_SameDecision" -> C07_SameDecisionAt(TStable)
      [] name = "C07_SameConfiguration" -> C07_SameConfigurationAt(TStable)
      [] name = "C07_NotBlocked" -> C07_NotBlockedAt(TStable) /\ T_DrainTerminates
      [] name = "C06_RollbackCompletes" -> T_DrainTerminates
      [] name = "C04_ComesToRest" -> T_DrainTerminates
      [] name = "C04_SyncCompletes" -> T_SyncCompletes
      [] name = "C09_ComesToRest" -> T_DrainTerminates
      [] name = "C07_DeviceConverged" -> C07_DeviceConvergedAt(TStable)
      [] name = "C08_TruthfulSuccess" -> C08_TruthfulSuccess
      [] name = "C08_TruthfulFailure" -> C08_TruthfulFailure
      [] name = "C08_NoHang" -> C08_NoHang
      [] name = "C08_ResponseContent" -> C08_ResponseContent
      [] name = "C09_QuiescentIsFixpoint" -> C09_QuiescentIsFixpoint
      [] name = "C09_AllTerminal" -> C09_AllTerminalAt(TStable)
      [] name = "C09_ProbeClean" -> T_ProbeClean
      [] name = "C10_OneMasterPerTerm" -> C10_OneMasterPerTerm
      [] name = "C11_OnlyRealRefusalsFail" -> C11_OnlyRealRefusalsFail
      [] name = "C11_TxReportsClass" -> C11_TxReportsClass
      [] name = "C11_RefusalFails" -> C11_RefusalFailsAt(TStable)
      [] name = "C03_GetIsLiveView" -> T_GetIsLiveView

\* action clauses, evaluated on the recorded step (unprimed = before, primed = after)
ActNames == {"C10_TermMonotone", "C10_NewTermOnReassign", "C10_WriteCarriesTerm", "C10_SyncBeforeApply"}
ActClause(name) ==
    CASE name = "C10_TermMonotone" -> C10_TermMonotone_Act
      [] name = "C10_NewTermOnReassign" -> C10_NewTermOnReassign_Act
      [] name = "C10_WriteCarriesTerm" -> C10_WriteCarriesTerm_Act
      [] name = "C10_SyncBeforeApply" -> C10_SyncBeforeApply_Act

\* the checker passes the selected clause names through the generated module TraceSel ({} = all)
WantedState == IF SelectedSet = {} THEN StateNames ELSE StateNames \cap SelectedSet
WantedAct == IF SelectedSet = {} THEN ActNames ELSE ActNames \cap SelectedSet

TraceNext ==
    /\ l < Len(Trace)
    /\ Bind(l + 1, Trace[l + 1].act.k = "init")
    /\ viol' = IF Trace[l + 1].act.k = "init" THEN {} ELSE {name \in WantedAct : ~ActClause(name)}
    \* step conformance is decided for whole reconciles; steps of fine-grained reconciles (begin / exec, and whatever
    \* happens while one is in flight) are validated through the state clauses only
    /\ drift' = IF CheckDrift /\ infl = EmptyFn /\ Trace[l + 1].act.k \notin {"begin", "exec"}
                THEN ~(Next \/ IsReset \/ IsForce \/ UNCHANGED vars) ELSE FALSE

TraceSpec == TraceInit /\ [][TraceNext]_tvars

\* the whole file was consumed
TraceAccepted == TLCGet("stats").diameter - 1 = Len(Trace)

\* reporting: one line per offending state, the run continues (TLC evaluates, the checker only collects);
\* state clauses are evaluated here, on the unprimed current state, where TLC caches operator arguments
Report ==
    LET bad == viol \cup {name \in WantedState : ~StateClause(name)} IN
    /\ bad = {} \/ PrintT(<<"VIOLATION", l, bad>>)
    /\ ~drift \/ PrintT(<<"DRIFT", l>>)
=============================================================================
