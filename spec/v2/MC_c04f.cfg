\* GENERATED by tools/gen_v2_configs.py
CONSTANTS
 Targets <- S_Targets
 ConnIds <- S_ConnIds
 ConnSeq <- S_ConnSeq
 Requests <- S_Requests
 HandlerNames <- S_HandlerNames
 HandlerSeq <- S_HandlerSeq
 FailCodes <- S_FailCodes
 MaxCrashes = 0
 MaxConnEvents = 4
 MaxDevRestarts = 1
 MaxFailBursts = 0
 MaxSteps = 1000000
 Fine = TRUE
 FineCtls = {"cfg"}
 FineClients = FALSE
 AllPaths <- PU_All
 GoParent <- PU_GoParent
 TextPrefix <- PU_TextPrefix
 ElemPrefix <- PU_ElemPrefix
 Rank <- PU_Rank
INIT MCInit
NEXT MCNext
CHECK_DEADLOCK FALSE
VIEW View
INVARIANTS C04_Converged C10_OneMasterPerTerm Cover
PROPERTIES C10_Acts
