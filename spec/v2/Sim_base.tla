---- MODULE Sim_base ----
EXTENDS OnosV2MC
Chg(t, p, v) == [kind |-> "change", sync |-> FALSE, rb |-> 0, ch |-> (t :> (p :> v))]
Chg2(t, p1, v1, p2, v2) == [kind |-> "change", sync |-> FALSE, rb |-> 0, ch |-> (t :> (p1 :> v1 @@ p2 :> v2))]
Multi(p1, v1, p2, v2) == [kind |-> "change", sync |-> FALSE, rb |-> 0, ch |-> ("t1" :> (p1 :> v1) @@ "t2" :> (p2 :> v2))]
Sync(r) == [r EXCEPT !.sync = TRUE]
Rb(i) == [kind |-> "rollback", sync |-> TRUE, rb |-> i, ch |-> EmptyFn]

S_Targets == {"t1"}
S_ConnSeq == <<"c1", "c2", "c3">>
S_ConnIds == {"c1", "c2", "c3"}
S_HandlerSeq == <<"h1", "h2", "h3">>
S_HandlerNames == {"h1", "h2", "h3"}

S_Requests == { Chg("t1", "/a/b", "v1"), Chg("t1", "/a/c", "INVALID"), Chg("t1", "/ab", "v2"),
                Sync(Chg("t1", "/a/b", "v3")), Sync(Chg2("t1", "/a/b", "v4", "/a/c", "v5")) }
S_FailCodes == {14}

====
