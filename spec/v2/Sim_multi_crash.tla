---- MODULE Sim_multi_crash ----
EXTENDS OnosV2MC
Chg(t, p, v) == [kind |-> "change", sync |-> FALSE, rb |-> 0, ch |-> (t :> (p :> v))]
Chg2(t, p1, v1, p2, v2) == [kind |-> "change", sync |-> FALSE, rb |-> 0, ch |-> (t :> (p1 :> v1 @@ p2 :> v2))]
Multi(p1, v1, p2, v2) == [kind |-> "change", sync |-> FALSE, rb |-> 0, ch |-> ("t1" :> (p1 :> v1) @@ "t2" :> (p2 :> v2))]
Sync(r) == [r EXCEPT !.sync = TRUE]
Rb(i) == [kind |-> "rollback", sync |-> TRUE, rb |-> i, ch |-> EmptyFn]

S_Targets == {"t1", "t2"}
S_ConnSeq == <<"c1", "c2", "c3", "c4">>
S_ConnIds == {"c1", "c2", "c3", "c4"}
S_HandlerSeq == <<"h1", "h2", "h3">>
S_HandlerNames == {"h1", "h2", "h3"}

S_Requests == { Multi("/a/b", "v1", "/a/b", "v2"), Multi("/a/c", "INVALID", "/a/c", "v3"),
                Chg("t1", "/a/b", "v5"), Multi("/a/c", "v7", "/ab", "v8") }
S_FailCodes == {14}

====
