CONSTANTS
 Targets <- TS_Targets
 ConnIds <- TS_ConnIds
 Requests <- TS_Requests
 HandlerNames <- TS_HandlerNames
 FailCodes <- TS_FailCodes
 Fine = FALSE
 FineCtls = {"tx", "prop", "cfg", "mast", "conn"}
 AllPaths <- PU_All
 GoParent <- PU_GoParent
 TextPrefix <- PU_TextPrefix
 ElemPrefix <- PU_ElemPrefix
 Rank <- PU_Rank
SPECIFICATION TraceSpec
CHECK_DEADLOCK FALSE
POSTCONDITION TraceAccepted
INVARIANT Report
