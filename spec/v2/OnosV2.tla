------------------------------- MODULE OnosV2 -------------------------------
(***************************************************************************)
(* Implementation-shaped specification of the onos-config v2 pipeline:     *)
(* gNMI Set / admin rollback handlers, the transaction, proposal,          *)
(* configuration, mastership and connection reconcilers, the controller    *)
(* runtime's work sets, the device, connections, and process crashes.      *)
(*                                                                         *)
(* Structure.  Every Reconcile(id) of the Go code is a pure function       *)
(* Plans(S, c, id) from the state it reads to the set of possible PLANS: a *)
(* plan is the ordered sequence of persisted effects that pass of the Go   *)
(* code performs (store writes carrying the version read, southbound Set,  *)
(* topo writes) ending in its controller.Result.  One operator, Apply,     *)
(* gives the meaning of an effect (optimistic version check, wake-ups of   *)
(* the watchers, notification of waiting northbound handlers).  With       *)
(* Fine = FALSE a reconcile is one step (Deliver); with Fine = TRUE it is  *)
(* Begin followed by one Exec per effect, so other controllers, faults and *)
(* Crash interleave between any two persisted effects.                     *)
(*                                                                         *)
(* Branch names in comments (T0, TI-create, PAb-3, ...) refer to the       *)
(* effect table in DESIGN.md appendix A.                                   *)
(***************************************************************************)
EXTENDS Integers, Sequences, FiniteSets, TLC

CONSTANTS
    Targets,      \* set of target ids (strings)
    ConnIds,      \* set of connection ids the environment may use
    Requests,     \* set of client requests [kind, sync, ch, rb] the environment may issue
    HandlerNames, \* set of northbound handler (request) names
    FailCodes,    \* gRPC codes the device may be scripted to answer transiently
    Fine,         \* store-call granularity
    FineCtls,     \* ... of the reconciles of these controllers (the others stay one step)
    AllPaths, GoParent, TextPrefix, ElemPrefix, Rank

VARIABLES
    up,       \* is the onos-config process running
    txs,      \* the transaction log: sequence of records
    props,    \* proposal id -> record
    cfgs,     \* target -> configuration record (values included)
    vers,     \* <<kind, key>> -> number of successful writes (normalised version)
    rels,     \* CONTROLS relation id -> target (topo, survives crashes)
    conns,    \* live connection id -> target (volatile)
    dev,      \* target -> [vals, boot, maxeid]
    failq,    \* target -> sequence of scripted transient answers
    q,        \* controller -> set of pending ids
    infl,     \* actor -> [c, id, plan] (Fine only)
    h,        \* handler name -> record
    \* history (never read by actions)
    devlog, mergelog, pluglog

vars == <<up, txs, props, cfgs, vers, rels, conns, dev, failq, q, infl, h, devlog, mergelog, pluglog>>

VO == INSTANCE ValueOps

-----------------------------------------------------------------------------
(* Small helpers *)

Ctls == {"tx", "prop", "cfg", "mast", "conn"}
NoId == "<none>"

PID(t, i) == t \o "-" \o ToString(i)

Put(f, k, v) == [x \in (DOMAIN f) \cup {k} |-> IF x = k THEN v ELSE f[x]]
Drop(f, ks)  == [x \in (DOMAIN f) \ ks |-> f[x]]
EmptyFn      == [x \in {} |-> 0]
Range(s)     == {s[x] : x \in DOMAIN s}

StateRank(s) == CASE s = "PENDING" -> 0 [] s = "VALIDATED" -> 1 [] s = "COMMITTED" -> 2
                  [] s = "APPLIED" -> 3 [] s = "FAILED" -> 4

NoPhases == [init |-> "N", val |-> "N", com |-> "N", app |-> "N", abt |-> "N"]

Ver(S, kind, key) == IF <<kind, key>> \in DOMAIN S.vers THEN S.vers[<<kind, key>>] ELSE 0

\* reserved value tokens (content-based verdicts, the same functions in the harness)
IsInvalidValue(v) == v = "INVALID"
RejectCode(v) == CASE v = "REJECT-1" -> 1 [] v = "REJECT-2" -> 2 [] v = "REJECT-3" -> 3 [] v = "REJECT-4" -> 4
                   [] v = "REJECT-5" -> 5 [] v = "REJECT-6" -> 6 [] v = "REJECT-7" -> 7 [] v = "REJECT-8" -> 8
                   [] v = "REJECT-9" -> 9 [] v = "REJECT-10" -> 10 [] v = "REJECT-11" -> 11 [] v = "REJECT-12" -> 12
                   [] v = "REJECT-13" -> 13 [] v = "REJECT-14" -> 14 [] v = "REJECT-15" -> 15 [] v = "REJECT-16" -> 16
                   [] OTHER -> 0

\* what reaches reconcileApply after the southbound client has turned the gRPC status into a
\* typed error and back (errors.FromGRPC ; errors.Status): codes without a typed class become Unknown
SeenCode(c) == IF c \in {1, 2, 3, 4, 5, 6, 7, 9, 12, 13, 14, 16} THEN c ELSE 2
IsTransientCode(c) == SeenCode(c) \in {14, 1, 4}     \* Unavailable, Canceled, DeadlineExceeded
IsDeniedCode(c) == SeenCode(c) = 7                   \* PermissionDenied: mastership superseded
\* the failure class recorded for a refused apply (switch in reconcileApply)
ClassOfCode(c) == LET s == SeenCode(c) IN
    CASE s = 2 -> "UNKNOWN" [] s = 5 -> "NOT_FOUND" [] s = 6 -> "ALREADY_EXISTS" [] s = 16 -> "UNAUTHORIZED"
      [] s = 9 -> "CONFLICT" [] s = 3 -> "INVALID" [] s = 12 -> "NOT_SUPPORTED" [] s = 13 -> "INTERNAL"
      [] OTHER -> "UNKNOWN"
\* the gRPC code a northbound handler answers for a failure class (errors.Status)
CodeOfClass(f) == CASE f = "UNKNOWN" -> 2 [] f = "CANCELED" -> 1 [] f = "NOT_FOUND" -> 5 [] f = "ALREADY_EXISTS" -> 6
                    [] f = "UNAUTHORIZED" -> 16 [] f = "FORBIDDEN" -> 7 [] f = "CONFLICT" -> 9 [] f = "INVALID" -> 3
                    [] f = "UNAVAILABLE" -> 14 [] f = "NOT_SUPPORTED" -> 12 [] f = "TIMEOUT" -> 4 [] f = "INTERNAL" -> 13
                    [] OTHER -> 2

-----------------------------------------------------------------------------
(* The state record the plan / effect interpreter works on *)

Pack == [txs |-> txs, props |-> props, cfgs |-> cfgs, vers |-> vers, rels |-> rels, conns |-> conns,
         dev |-> dev, failq |-> failq, q |-> q, h |-> h,
         devlog |-> devlog, mergelog |-> mergelog, pluglog |-> pluglog]

Unpack(S) ==
    /\ txs' = S.txs /\ props' = S.props /\ cfgs' = S.cfgs /\ vers' = S.vers /\ rels' = S.rels
    /\ dev' = S.dev /\ failq' = S.failq /\ q' = S.q /\ h' = S.h
    /\ devlog' = S.devlog /\ mergelog' = S.mergelog /\ pluglog' = S.pluglog

Wake(S, c, ids) == [S EXCEPT !.q[c] = @ \cup ids]

\* the (target, path, op) triples a successful SetResponse lists
ResultsOf(ch) == UNION {{[t |-> t, p |-> p, op |-> IF ch[t][p] = "DEL" THEN "delete" ELSE "update"] : p \in DOMAIN ch[t]} : t \in DOMAIN ch}

\* a waiting northbound handler examines an event of its transaction (set.go / admin.go)
HandlerSees(hr, tx) ==
    IF hr.st # "waiting" \/ hr.tx # tx.i THEN hr
    ELSE IF (~tx.sync /\ tx.state \in {"COMMITTED", "APPLIED"}) \/ (tx.sync /\ tx.state = "APPLIED")
         THEN [hr EXCEPT !.st = "done", !.ok = TRUE, !.code = 0, !.ridx = tx.i, !.rown = TRUE,
                         !.results = IF hr.kind = "set" THEN ResultsOf(hr.ch) ELSE {}]
    ELSE IF tx.state = "FAILED"
         THEN [hr EXCEPT !.st = "done", !.ok = FALSE, !.code = CodeOfClass(tx.fail)]
    ELSE hr

NotifyHandlers(S, tx) == [S EXCEPT !.h = [n \in DOMAIN S.h |-> HandlerSees(S.h[n], tx)]]

-----------------------------------------------------------------------------
(* Effects.  Each write carries the version read when the plan was made.   *)

WTx(S, i, rec)        == [k |-> "tx", key |-> i, rec |-> rec, ver |-> Ver(S, "tx", i)]
CProp(S, id, rec)     == [k |-> "propc", key |-> id, rec |-> rec, ver |-> 0]
WProp(S, id, rec)     == [k |-> "prop", key |-> id, rec |-> rec, ver |-> Ver(S, "prop", id)]
CCfg(S, t, rec)       == [k |-> "cfgc", key |-> t, rec |-> rec, ver |-> 0]
WCfgS(S, t, rec, er)  == [k |-> "cfgs", key |-> t, rec |-> rec, ver |-> Ver(S, "cfg", t), er |-> er, wv |-> FALSE]
\* UpdateStatus with Status.Applied.Values set also writes the applied value map
WCfgSV(S, t, rec, er) == [k |-> "cfgs", key |-> t, rec |-> rec, ver |-> Ver(S, "cfg", t), er |-> er, wv |-> TRUE]
WCfgU(S, t, rec, by)  == [k |-> "cfgu", key |-> t, rec |-> rec, ver |-> Ver(S, "cfg", t), by |-> by]
CRel(id, t)           == [k |-> "relc", key |-> id, t |-> t]
DRel(id)              == [k |-> "reld", key |-> id]
PlugCall(id, leaves, valid) == [k |-> "plug", key |-> id, leaves |-> leaves, valid |-> valid]
\* southbound Set; what follows depends on the device's answer at execution time
DevSet(t, tag, id, conn, eid, upd, del, onok, onrefused, ontransient) ==
    [k |-> "dev", key |-> t, tag |-> tag, id |-> id, conn |-> conn, eid |-> eid, upd |-> upd, del |-> del,
     onok |-> onok, onrefused |-> onrefused, ontransient |-> ontransient]
Ret(c, id)            == [k |-> "ret", c |-> c, key |-> id]
RetErr                == [k |-> "err"]

\* the device's answer to a Set (the harness' simulated device implements the same function)
DevAnswer(S, t, e) ==
    IF S.failq[t] # << >> THEN Head(S.failq[t])
    ELSE IF e.eid < S.dev[t].maxeid THEN 7
    ELSE LET rej == {RejectCode(e.upd[p]) : p \in DOMAIN e.upd} \ {0}
         IN IF rej = {} THEN 0 ELSE CHOOSE c \in rej : TRUE

DevApplySet(vals, e) ==
    LET kept == {p \in DOMAIN vals : ~\E d \in e.del : VO!Covers(d, p)}
    IN [p \in kept \cup DOMAIN e.upd |-> IF p \in DOMAIN e.upd THEN e.upd[p] ELSE vals[p]]

BumpVer(S, kind, key) == [S EXCEPT !.vers = Put(@, <<kind, key>>, Ver(S, kind, key) + 1)]

\* watcher mappings (pkg/controller/v2/*/watcher.go)
WakeTx(S, i)       == Wake(S, "tx", {i})
WakeProp(S, id, r) == Wake(Wake(S, "prop", {id}), "tx", {r.i})
WakeCfg(S, t, r)   == Wake(Wake(Wake(S, "cfg", {t}), "mast", {t}), "prop", {PID(t, r.index), PID(t, r.applied), PID(t, r.committed)})
WakeRel(S, id, t)  == Wake(Wake(S, "conn", {id}), "mast", {t})

GoCont == [k |-> "cont", then |-> << >>]
GoStop == [k |-> "stop", then |-> << >>]
GoErr  == [k |-> "err", then |-> << >>]
GoThen(plan) == [k |-> "then", then |-> plan]

\* Apply one effect.  Result: [S, go] with go in
\*   "cont" (next effect), "stop" (pass ends, Result{}), "err" (pass ends with an error: same id retried),
\*   or a record [then |-> <<effects>>] (continue with a different continuation: device answers)
Apply(S, e) ==
    CASE e.k = "tx" ->
            IF Ver(S, "tx", e.key) # e.ver THEN [S |-> S, go |-> GoStop]   \* conflict swallowed
            ELSE LET S1 == BumpVer([S EXCEPT !.txs[e.key] = e.rec], "tx", e.key)
                 IN [S |-> NotifyHandlers(WakeTx(S1, e.key), e.rec), go |-> GoCont]
      [] e.k = "propc" ->
            IF e.key \in DOMAIN S.props THEN [S |-> S, go |-> GoStop]      \* AlreadyExists: Result{}
            ELSE LET S1 == BumpVer([S EXCEPT !.props = Put(@, e.key, e.rec)], "prop", e.key)
                 IN [S |-> WakeProp(S1, e.key, e.rec), go |-> GoCont]
      [] e.k = "prop" ->
            IF e.key \notin DOMAIN S.props \/ Ver(S, "prop", e.key) # e.ver THEN [S |-> S, go |-> GoStop]
            ELSE LET S1 == BumpVer([S EXCEPT !.props[e.key] = e.rec], "prop", e.key)
                 IN [S |-> WakeProp(S1, e.key, e.rec), go |-> GoCont]
      [] e.k = "cfgc" ->
            IF e.key \in DOMAIN S.cfgs THEN [S |-> S, go |-> GoCont]       \* AlreadyExists ignored
            ELSE LET S1 == BumpVer([S EXCEPT !.cfgs = Put(@, e.key, e.rec)], "cfg", e.key)
                 IN [S |-> WakeCfg(S1, e.key, e.rec), go |-> GoCont]
      [] e.k = "cfgs" ->
            IF e.key \notin DOMAIN S.cfgs \/ Ver(S, "cfg", e.key) # e.ver
            THEN [S |-> S, go |-> IF e.er THEN GoErr ELSE GoStop]
            \* UpdateStatus never touches the committed values, and the applied values only if they are set
            ELSE LET rec == [e.rec EXCEPT !.values = S.cfgs[e.key].values,
                                          !.avalues = IF e.wv THEN e.rec.avalues ELSE S.cfgs[e.key].avalues]
                     S1 == BumpVer([S EXCEPT !.cfgs[e.key] = rec], "cfg", e.key)
                 IN [S |-> WakeCfg(S1, e.key, rec), go |-> GoCont]
      [] e.k = "cfgu" ->
            LET okv == e.key \in DOMAIN S.cfgs /\ Ver(S, "cfg", e.key) = e.ver
                before == IF e.key \in DOMAIN S.cfgs THEN VO!LiveView(S.cfgs[e.key].values) ELSE EmptyFn
                Sm == [S EXCEPT !.mergelog = Append(@, [t |-> e.key, i |-> e.rec.committed, by |-> e.by, ok |-> okv,
                                                        before |-> before,
                                                        after |-> IF okv THEN VO!LiveView(e.rec.values) ELSE before])]
            IN IF ~okv THEN [S |-> Sm, go |-> GoErr]
               ELSE LET S1 == BumpVer([Sm EXCEPT !.cfgs[e.key] = [e.rec EXCEPT !.avalues = S.cfgs[e.key].avalues]], "cfg", e.key)
                    IN [S |-> WakeCfg(S1, e.key, e.rec), go |-> GoCont]
      [] e.k = "relc" ->
            IF e.key \in DOMAIN S.rels THEN [S |-> S, go |-> GoStop]
            ELSE [S |-> WakeRel([S EXCEPT !.rels = Put(@, e.key, e.t)], e.key, e.t), go |-> GoCont]
      [] e.k = "reld" ->
            IF e.key \notin DOMAIN S.rels THEN [S |-> S, go |-> GoStop]
            ELSE [S |-> WakeRel([S EXCEPT !.rels = Drop(@, {e.key})], e.key, S.rels[e.key]), go |-> GoCont]
      [] e.k = "plug" ->
            [S |-> [S EXCEPT !.pluglog = Append(@, [id |-> e.key, leaves |-> e.leaves, valid |-> e.valid])], go |-> GoCont]
      [] e.k = "dev" ->
            IF e.conn \notin DOMAIN S.conns
            THEN [S |-> S, go |-> GoThen(e.ontransient)]   \* connection closed under us: Unavailable from the client
            ELSE
            LET t == e.key
                code == DevAnswer(S, t, e)
                entry == [t |-> t, ctl |-> e.tag, id |-> e.id, conn |-> e.conn, eid |-> e.eid,
                          upd |-> e.upd, del |-> e.del, code |-> code, boot |-> S.dev[t].boot]
                S1 == [S EXCEPT !.devlog = Append(@, entry),
                                !.failq[t] = IF @ # << >> THEN Tail(@) ELSE @]
            IN IF code = 0
               THEN [S |-> [S1 EXCEPT !.dev[t].vals = DevApplySet(@, e),
                                      !.dev[t].maxeid = IF e.eid > @ THEN e.eid ELSE @],
                     go |-> GoThen(e.onok)]
               ELSE IF IsTransientCode(code) THEN [S |-> S1, go |-> GoThen(e.ontransient)]
               ELSE IF IsDeniedCode(code) THEN [S |-> S1, go |-> GoStop]
               ELSE [S |-> S1, go |-> GoThen(e.onrefused[ClassOfCode(code)])]
      [] e.k = "ret" -> [S |-> Wake(S, e.c, {e.key}), go |-> GoStop]
      [] e.k = "err" -> [S |-> S, go |-> GoErr]

\* Run a whole plan (Fine = FALSE).  Result: [S, err] - err: the reconcile returned an error.
RECURSIVE RunPlan(_, _)
RunPlan(S, plan) ==
    IF plan = << >> THEN [S |-> S, err |-> FALSE]
    ELSE LET r == Apply(S, Head(plan)) IN
         IF r.go.k = "cont" THEN RunPlan(r.S, Tail(plan))
         ELSE IF r.go.k = "stop" THEN [S |-> r.S, err |-> FALSE]
         ELSE IF r.go.k = "err" THEN [S |-> r.S, err |-> TRUE]
         ELSE RunPlan(r.S, r.go.then)

-----------------------------------------------------------------------------
(* Transaction reconciler (pkg/controller/v2/transaction/controller.go) *)

NewProposal(t, i, kind, rb, ch) ==
    [t |-> t, i |-> i, kind |-> kind, rb |-> rb, ch |-> ch, ph |-> NoPhases, prev |-> 0, next |-> 0,
     rbidx |-> 0, rbvals |-> VO!EmptyMap, fail |-> "-", term |-> 0]

TxProps(S, tx) == {id \in tx.props : id \in DOMAIN S.props}
AllPropsExist(S, tx) == tx.props \subseteq DOMAIN S.props

\* waiting for a SERIALIZABLE predecessor (checked through the proposals' PrevIndex)
SerialWait(S, tx, rank) ==
    \E id \in tx.props : LET p == S.props[id] IN
        /\ p.prev > 0 /\ p.prev <= Len(S.txs)
        /\ S.txs[p.prev].ser /\ StateRank(S.txs[p.prev].state) < rank

FailTx(tx, class, phase) ==
    [tx EXCEPT !.state = "FAILED", !.fail = class, !.ph.abt = "I", !.ph[phase] = "F"]

TxCreatePlans(S, tx, tgts, kind, rb, chOf(_)) ==
    LET need == {t \in tgts : PID(t, tx.i) \notin DOMAIN S.props}
        ids  == {PID(t, tx.i) : t \in tgts}
    IN { [n \in 1..Cardinality(need) |-> CProp(S, PID(ord[n], tx.i), NewProposal(ord[n], tx.i, kind, rb, chOf(ord[n])))]
             \o << WTx(S, tx.i, [tx EXCEPT !.props = ids]) >> : ord \in VO!Orders(need) }

TxInitPlans(S, tx) ==
    CASE tx.ph.init = "I" ->
            IF tx.i > 1 /\ S.txs[tx.i - 1].ph.init \in {"N", "I"} THEN {<< >>}                 \* TI-wait
            ELSE IF tx.props = {} THEN
                IF tx.kind = "change"
                THEN TxCreatePlans(S, tx, DOMAIN tx.ch, "change", 0, LAMBDA t : tx.ch[t])         \* TI-create
                ELSE IF tx.rb < 1 \/ tx.rb > Len(S.txs)
                     THEN {<< WTx(S, tx.i, FailTx(tx, "NOT_FOUND", "init")), Ret("tx", tx.i + 1) >>}                   \* TI-rb-missing
                ELSE IF S.txs[tx.rb].kind = "rollback"
                     THEN {<< WTx(S, tx.i, FailTx(tx, "FORBIDDEN", "init")), Ret("tx", tx.i + 1) >>}                   \* TI-rb-of-rb
                ELSE TxCreatePlans(S, tx, DOMAIN S.txs[tx.rb].ch, "rollback", tx.rb, LAMBDA t : EmptyFn)
            ELSE IF ~AllPropsExist(S, tx) THEN {<< >>}
            ELSE IF \A id \in tx.props : S.props[id].ph.init = "D"
                 THEN {<< WTx(S, tx.i, [tx EXCEPT !.ph.init = "D"]) >>}                           \* TI-done
                 ELSE {<< >>}
      [] tx.ph.init = "D" ->
            IF ~AllPropsExist(S, tx) THEN {<< >>}
            ELSE IF SerialWait(S, tx, 1) THEN {<< >>}                                             \* TI'-wait
            ELSE {<< WTx(S, tx.i, [tx EXCEPT !.ph.val = "I"]), Ret("tx", tx.i + 1) >>}            \* TI'-go
      [] OTHER -> {<< >>}

\* scanning Status.Proposals stops at the first proposal that is not started or has failed;
\* the list order is a Go map order fixed at creation, so any such proposal can be the one found
TxValidatePlans(S, tx) ==
    CASE tx.ph.val = "I" ->
            IF ~AllPropsExist(S, tx) THEN {<< >>}
            ELSE LET nil == {id \in tx.props : S.props[id].ph.val = "N"}
                     bad == {id \in tx.props : S.props[id].ph.val = "F"}
                 IN IF nil \cup bad # {}
                    THEN {<< WProp(S, id, [S.props[id] EXCEPT !.ph.val = "I"]) >> : id \in nil}         \* TV-start
                         \cup {<< WTx(S, tx.i, FailTx(tx, S.props[id].fail, "val")) >> : id \in bad} \* TV-fail
                    ELSE IF \A id \in tx.props : S.props[id].ph.val = "D"
                         THEN {<< WTx(S, tx.i, [tx EXCEPT !.state = "VALIDATED", !.ph.val = "D"]) >>}   \* TV-done
                         ELSE {<< >>}
      [] tx.ph.val = "D" ->
            IF ~AllPropsExist(S, tx) THEN {<< >>}
            ELSE IF SerialWait(S, tx, 2) THEN {<< >>}
            ELSE {<< WTx(S, tx.i, [tx EXCEPT !.ph.com = "I"]) >>}                                  \* TV'-go
      [] OTHER -> {<< >>}

TxCommitPlans(S, tx) ==
    CASE tx.ph.com = "I" ->
            IF ~AllPropsExist(S, tx) THEN {<< >>}
            ELSE LET nil == {id \in tx.props : S.props[id].ph.com = "N"}
                 IN IF nil # {} THEN {<< WProp(S, id, [S.props[id] EXCEPT !.ph.com = "I"]) >> : id \in nil} \* TC-start
                    ELSE IF \A id \in tx.props : S.props[id].ph.com = "D"
                         THEN {<< WTx(S, tx.i, [tx EXCEPT !.state = "COMMITTED", !.ph.com = "D"]) >>}   \* TC-done
                         ELSE {<< >>}
      [] tx.ph.com = "D" ->
            IF ~AllPropsExist(S, tx) THEN {<< >>}
            ELSE IF SerialWait(S, tx, 3) THEN {<< >>}
            ELSE {<< WTx(S, tx.i, [tx EXCEPT !.ph.app = "I"]) >>}                                  \* TC'-go
      [] OTHER -> {<< >>}

TxAbortPlans(S, tx) ==
    IF tx.ph.abt # "I" THEN {<< >>}
    ELSE IF ~AllPropsExist(S, tx) THEN {<< >>}
    ELSE LET nil == {id \in tx.props : S.props[id].ph.abt = "N"}
         IN IF nil # {} THEN {<< WProp(S, id, [S.props[id] EXCEPT !.ph.abt = "I"]) >> : id \in nil}     \* TAb-start
            ELSE IF \A id \in tx.props : S.props[id].ph.abt # "I"
                 THEN {<< WTx(S, tx.i, [tx EXCEPT !.ph.abt = "D"]) >>}                             \* TAb-done
                 ELSE {<< >>}

TxApplyPlans(S, tx) ==
    IF tx.ph.app # "I" THEN {<< >>}
    ELSE IF ~AllPropsExist(S, tx) THEN {<< >>}
    ELSE LET nil == {id \in tx.props : S.props[id].ph.app = "N"}
             bad == {id \in tx.props : S.props[id].ph.app = "F"}
         \* the apply phase of every proposal is started before a failed one fails the transaction
         IN IF nil # {}
            THEN {<< WProp(S, id, [S.props[id] EXCEPT !.ph.app = "I"]) >> : id \in nil}                  \* TAp-start
            ELSE IF bad # {}
            THEN {<< WTx(S, tx.i, [tx EXCEPT !.state = "FAILED", !.fail = S.props[id].fail, !.ph.app = "F"]) >> : id \in bad} \* TAp-fail
            ELSE IF \A id \in tx.props : S.props[id].ph.app = "D"
                 THEN {<< WTx(S, tx.i, [tx EXCEPT !.state = "APPLIED", !.ph.app = "D"]) >>}        \* TAp-done
                 ELSE {<< >>}

TxPlans(S, i) ==
    IF i \notin 1..Len(S.txs) THEN {<< >>}
    ELSE LET tx == S.txs[i] IN
         CASE tx.ph.app # "N"  -> TxApplyPlans(S, tx)
           [] tx.ph.abt # "N"  -> TxAbortPlans(S, tx)
           [] tx.ph.com # "N"  -> TxCommitPlans(S, tx)
           [] tx.ph.val # "N"  -> TxValidatePlans(S, tx)
           [] tx.ph.init # "N" -> TxInitPlans(S, tx)
           [] OTHER -> {<< WTx(S, i, [tx EXCEPT !.ph.init = "I"]) >>}                              \* T0

-----------------------------------------------------------------------------
(* Proposal reconciler (pkg/controller/v2/proposal/controller.go) *)

NewCfg(i) == [index |-> 0, proposed |-> i, committed |-> 0, applied |-> 0, state |-> "UNKNOWN",
              master |-> "", term |-> 0, amaster |-> "", aterm |-> 0, values |-> VO!EmptyMap, avalues |-> VO!EmptyMap]

\* change values as stored in the proposal: stamped with the transaction index
ChangeVals(p) == [path \in DOMAIN p.ch |-> IF p.ch[path] = "DEL" THEN VO!Tomb(p.i) ELSE VO!Val(p.ch[path], p.i)]

PropInitPlans(S, id, p) ==
    IF p.ph.init # "I" THEN {<< >>}
    ELSE IF p.t \notin DOMAIN S.cfgs
         THEN {<< CCfg(S, p.t, NewCfg(p.i)), Ret("prop", id) >>}                                   \* PI-mkcfg
    ELSE LET cfg == S.cfgs[p.t] IN
         IF cfg.proposed < p.i THEN
            LET prevId == PID(p.t, cfg.proposed)
                advance == {<< WCfgS(S, p.t, [cfg EXCEPT !.proposed = p.i], TRUE), Ret("prop", id) >>} \* PI-advance
            IN IF cfg.proposed > 0 /\ prevId \in DOMAIN S.props THEN
                  IF S.props[prevId].next = 0
                  THEN {<< WProp(S, prevId, [S.props[prevId] EXCEPT !.next = p.i]), Ret("prop", id) >>}  \* PI-linknext
                  ELSE IF p.prev = 0
                  THEN {<< WProp(S, id, [p EXCEPT !.prev = cfg.proposed]), Ret("prop", id) >>}     \* PI-linkprev
                  ELSE advance
               ELSE advance
         ELSE {<< WProp(S, id, [p EXCEPT !.ph.init = "D"]) >>}                                     \* PI-done

\* PV-change: the candidate configuration shown to the plugin and the rollback data (reconcileValidate).
\* Deletes first: everything beneath a deleted path leaves the candidate and is captured for rollback; then the
\* updates, which remove deleted parents (captured too).
RECURSIVE ValDeletes(_, _, _, _, _)
ValDeletes(cfgvals, chvals, cv, rb, ord) ==
    IF ord = << >> THEN [cv |-> cv, rb |-> rb]
    ELSE LET path == Head(ord)
             kids == {k \in DOMAIN cfgvals : VO!HasPrefix(k, path) /\ k # path}
             rb1 == [k \in (DOMAIN rb) \cup kids |-> IF k \in kids THEN cfgvals[k] ELSE rb[k]]
             cv1 == VO!Put(VO!Drop(cv, kids), path, chvals[path])
             rb2 == IF path \in DOMAIN cfgvals THEN VO!Put(rb1, path, cfgvals[path]) ELSE rb1
         IN ValDeletes(cfgvals, chvals, cv1, rb2, Tail(ord))

RECURSIVE ValUpdates(_, _, _, _, _)
ValUpdates(cfgvals, chvals, cv, rb, ord) ==
    IF ord = << >> THEN [cv |-> cv, rb |-> rb]
    ELSE LET path == Head(ord)
             r == VO!ApplyChange(cv, path, chvals[path])
             rb1 == VO!Merge(rb, r.removed)
             rb2 == VO!Put(rb1, path, IF path \in DOMAIN cfgvals THEN cfgvals[path] ELSE VO!Tomb(0))
         IN ValUpdates(cfgvals, chvals, r.vals, rb2, Tail(ord))

ValidateChange(cfgvals, chvals) ==
    LET dels == {x \in DOMAIN chvals : chvals[x].d}
        d == ValDeletes(cfgvals, chvals, cfgvals, VO!EmptyMap, VO!SortedSeq(dels))
    IN ValUpdates(cfgvals, chvals, d.cv, d.rb, VO!SortedSeq((DOMAIN chvals) \ dels))

DocValid(leaves) == \A path \in DOMAIN leaves : ~IsInvalidValue(leaves[path])

PropValidatePlans(S, id, p) ==
    IF p.ph.val # "I" THEN {<< >>}
    ELSE IF p.t \notin DOMAIN S.cfgs THEN {<< >>}
    ELSE LET cfg == S.cfgs[p.t]
             failWith(class) == {<< WProp(S, id, [p EXCEPT !.ph.val = "F", !.fail = class]) >>}
         IN
         IF p.prev # 0 /\ cfg.committed # p.prev THEN {<< Ret("prop", PID(p.t, p.prev)) >>}         \* PV-wait
         ELSE IF p.kind = "change" THEN
              LET r == ValidateChange(cfg.values, ChangeVals(p))
                  leaves == VO!DocLeaves(r.cv)
                  valid == DocValid(leaves)
              IN {<< PlugCall(id, leaves, valid),
                     WProp(S, id, IF valid THEN [p EXCEPT !.ph.val = "D", !.rbidx = cfg.index, !.rbvals = r.rb]
                                           ELSE [p EXCEPT !.ph.val = "F", !.fail = "INVALID"]) >>}          \* PV-change
         ELSE IF cfg.index # p.rb THEN failWith("FORBIDDEN")                                       \* PV-rb-refuse
         ELSE IF PID(p.t, p.rb) \notin DOMAIN S.props THEN failWith("NOT_FOUND")
         ELSE LET tp == S.props[PID(p.t, p.rb)] IN
              IF tp.kind = "rollback" THEN failWith("FORBIDDEN")
              ELSE LET cv == VO!ApplyAll(cfg.values, tp.rbvals)
                       leaves == VO!DocLeaves(cv)
                       valid == DocValid(leaves)
                   IN {<< PlugCall(id, leaves, valid),
                          WProp(S, id, IF valid THEN [p EXCEPT !.ph.val = "D", !.rbidx = tp.rbidx, !.rbvals = tp.rbvals]
                                                ELSE [p EXCEPT !.ph.val = "F", !.fail = "INVALID"]) >>}  \* PV-rb

PropAbortPlans(S, id, p) ==
    CASE p.ph.abt = "I" ->
            IF p.t \notin DOMAIN S.cfgs THEN {<< >>}
            ELSE LET cfg == S.cfgs[p.t]
                     aborted == WProp(S, id, [p EXCEPT !.ph.abt = "D"])
                     \* an abort that has to wait for its predecessor to be applied re-queues it
                     waitprev == IF p.prev # 0 /\ cfg.applied # p.prev THEN << Ret("prop", PID(p.t, p.prev)) >> ELSE << >>
                 IN IF cfg.committed >= p.i /\ cfg.applied >= p.i
                    THEN {<< aborted >>}                                                                   \* PAb-0
                    ELSE IF cfg.committed = p.prev /\ cfg.applied = p.prev
                    THEN {<< WCfgS(S, p.t, [cfg EXCEPT !.committed = p.i, !.applied = p.i], TRUE), aborted >>}  \* PAb-1
                    ELSE IF cfg.committed = p.prev
                    THEN {<< WCfgS(S, p.t, [cfg EXCEPT !.committed = p.i], TRUE) >>
                          \o (IF p.next # 0 THEN << Ret("prop", PID(p.t, p.next)) >> ELSE waitprev)}       \* PAb-2
                    ELSE IF cfg.applied = p.prev /\ cfg.committed >= p.i
                    THEN {<< WCfgS(S, p.t, [cfg EXCEPT !.applied = p.i], TRUE), aborted >>}                 \* PAb-3
                    ELSE {waitprev}                                                                        \* PAb-wait
      [] p.ph.abt = "D" -> IF p.next # 0 THEN {<< Ret("prop", PID(p.t, p.next)) >>} ELSE {<< >>}            \* PAb'
      [] OTHER -> {<< >>}

PropCommitPlans(S, id, p) ==
    CASE p.ph.com = "I" ->
            IF p.t \notin DOMAIN S.cfgs THEN {<< >>}
            ELSE LET cfg == S.cfgs[p.t]
                     \* the successor is re-queued as soon as the proposal is marked COMMITTED
                     wakenext == IF p.next # 0 THEN << Ret("prop", PID(p.t, p.next)) >> ELSE << >>
                     done == WProp(S, id, [p EXCEPT !.ph.com = "D"])
                 IN IF cfg.committed = p.prev
                    THEN LET chvals == IF p.kind = "change" THEN ChangeVals(p) ELSE p.rbvals
                             newIndex == IF p.kind = "change" THEN p.i ELSE p.rbidx
                             adc == VO!AddDeleteChildren(p.i, chvals, cfg.values)
                             nv == VO!StoreValues(cfg.values, VO!ApplyAll(adc.cfg, adc.upd), TRUE)
                         IN {<< WCfgU(S, p.t, [cfg EXCEPT !.index = newIndex, !.committed = p.i, !.values = nv], id), done >> \o wakenext} \* PC-merge
                    ELSE {<< done >> \o wakenext}                                                  \* PC-skip
      [] p.ph.com = "D" -> IF p.next # 0 THEN {<< Ret("prop", PID(p.t, p.next)) >>} ELSE {<< >>}    \* PC'
      [] OTHER -> {<< >>}

\* the master relation and connection a write to target t must use (reconcileApply, reconcileConfiguration)
MasterConn(S, cfg, t) ==
    IF cfg.master # "" /\ cfg.master \in DOMAIN S.rels /\ cfg.master \in DOMAIN S.conns THEN cfg.master ELSE NoId

PropApplyPlans(S, id, p) ==
    CASE p.ph.app = "I" ->
            IF p.t \notin DOMAIN S.cfgs THEN {<< >>}
            ELSE LET cfg == S.cfgs[p.t] IN
                 IF cfg.applied >= p.i
                 THEN {<< WProp(S, id, [p EXCEPT !.ph.app = "D", !.term = cfg.aterm]) >>}           \* PAp-short
                 ELSE IF p.prev # 0 /\ cfg.applied # p.prev THEN {<< Ret("prop", PID(p.t, p.prev)) >>}  \* PAp-waitprev
                 ELSE IF cfg.state = "SYNCHRONIZING" \/ cfg.aterm < cfg.term \/ cfg.master = ""
                         \/ MasterConn(S, cfg, p.t) = NoId THEN {<< >>}                            \* PAp-wait*
                 ELSE LET chvals == IF p.kind = "change" THEN ChangeVals(p) ELSE p.rbvals
                          upd == VO!AddDeleteChildren(p.i, chvals, cfg.values).upd
                          sentp == VO!SentPaths(upd)
                          sUpd == [path \in {x \in sentp : ~upd[x].d} |-> upd[path].v]
                          sDel == {x \in sentp : upd[x].d}
                          okCfg == [cfg EXCEPT !.applied = p.i,
                                               !.avalues = VO!StoreValues(cfg.avalues, VO!ApplyAll(cfg.avalues, upd), TRUE)]
                      IN {
                           << DevSet(p.t, "prop", id, cfg.master, cfg.term, sUpd, sDel,
                                    \* PAp-ok
                                    << WCfgSV(S, p.t, okCfg, TRUE),
                                       WProp(S, id, [p EXCEPT !.ph.app = "D", !.term = cfg.term]) >>,
                                    \* PAp-refused, per failure class
                                    [class \in {"UNKNOWN", "NOT_FOUND", "ALREADY_EXISTS", "UNAUTHORIZED", "CONFLICT",
                                                "INVALID", "NOT_SUPPORTED", "INTERNAL"} |->
                                       \* the failure is recorded first, then the applied index is moved past the proposal
                                       << WProp(S, id, [p EXCEPT !.ph.app = "F", !.fail = class, !.term = cfg.term]),
                                          WCfgS(S, p.t, [cfg EXCEPT !.applied = p.i], TRUE) >>],
                                    \* PAp-transient
                                    << RetErr >>) >> }                                             \* PAp-send
      [] p.ph.app = "F" ->
            \* a FAILED proposal makes sure the applied index was moved past it (a crash or a conflict may have come
            \* between the two writes of the refusal), then wakes its successor
            LET wakenext == IF p.next # 0 THEN << Ret("prop", PID(p.t, p.next)) >> ELSE << >> IN
            IF p.t \notin DOMAIN S.cfgs THEN {<< >>}
            ELSE LET cfg == S.cfgs[p.t] IN
                 IF cfg.applied < p.i
                 THEN IF p.prev # 0 /\ cfg.applied # p.prev THEN {<< Ret("prop", PID(p.t, p.prev)) >>}      \* PAf-waitprev
                      ELSE {<< WCfgS(S, p.t, [cfg EXCEPT !.applied = p.i], TRUE) >> \o wakenext}             \* PAf-complete
                 ELSE {wakenext}                                                                         \* PAf'
      [] p.ph.app = "D" -> IF p.next # 0 THEN {<< Ret("prop", PID(p.t, p.next)) >>} ELSE {<< >>}    \* PAp'
      [] OTHER -> {<< >>}

PropPlans(S, id) ==
    IF id \notin DOMAIN S.props THEN {<< >>}
    ELSE LET p == S.props[id] IN
         CASE p.ph.app # "N"  -> PropApplyPlans(S, id, p)
           [] p.ph.abt # "N"  -> PropAbortPlans(S, id, p)
           [] p.ph.com # "N"  -> PropCommitPlans(S, id, p)
           [] p.ph.val # "N"  -> PropValidatePlans(S, id, p)
           [] p.ph.init # "N" -> PropInitPlans(S, id, p)
           [] OTHER -> {<< WProp(S, id, [p EXCEPT !.ph.init = "I"]) >>}                             \* P0

-----------------------------------------------------------------------------
(* Configuration, mastership and connection reconcilers *)

\* CF-push: one Set per transaction index found in the applied values, in Go map order
RECURSIVE PushGroups(_, _, _, _, _)
PushGroups(S, t, cfg, groups, final) ==
    IF groups = << >> THEN final
    ELSE LET idx == Head(groups)
             grp == {path \in DOMAIN cfg.avalues : cfg.avalues[path].i = idx}
             sUpd == [path \in {x \in grp : ~cfg.avalues[x].d} |-> cfg.avalues[path].v]
             sDel == {x \in grp : cfg.avalues[x].d}
         IN << DevSet(t, "cfg", t, cfg.master, cfg.term, sUpd, sDel,
                      PushGroups(S, t, cfg, Tail(groups), final),
                      [class \in {"UNKNOWN", "NOT_FOUND", "ALREADY_EXISTS", "UNAUTHORIZED", "CONFLICT",
                                  "INVALID", "NOT_SUPPORTED", "INTERNAL"} |-> << RetErr >>],
                      << RetErr >>) >>

CfgPlans(S, t) ==
    IF t \notin DOMAIN S.cfgs THEN {<< >>}
    ELSE LET cfg == S.cfgs[t]
             synced == WCfgS(S, t, [cfg EXCEPT !.state = "SYNCHRONIZED", !.amaster = cfg.master, !.aterm = cfg.term], FALSE)
         IN
         IF cfg.state # "SYNCHRONIZING" THEN
            IF cfg.term > cfg.aterm THEN {<< WCfgS(S, t, [cfg EXCEPT !.state = "SYNCHRONIZING"], FALSE) >>} \* CF-start
            ELSE {<< >>}
         ELSE IF cfg.master = "" THEN {<< >>}                                                      \* CF-nomaster
         ELSE IF cfg.applied = 0 THEN {<< synced >>}                                               \* CF-empty
         ELSE IF MasterConn(S, cfg, t) = NoId THEN {<< >>}                                         \* CF-wait
         ELSE LET idxs == {cfg.avalues[path].i : path \in DOMAIN cfg.avalues}
              IN { PushGroups(S, t, cfg, ord, << synced >>) : ord \in VO!Orders(idxs) }            \* CF-push

MastPlans(S, t) ==
    IF t \notin DOMAIN S.cfgs THEN {<< >>}
    ELSE LET cfg == S.cfgs[t]
             live == {r \in DOMAIN S.rels : S.rels[r] = t}
         IN IF cfg.master \in live THEN {<< >>}
            ELSE IF live = {} THEN
                 IF cfg.master = "" THEN {<< >>}
                 ELSE {<< WCfgS(S, t, [cfg EXCEPT !.master = ""], FALSE) >>}                       \* MS-resign
            ELSE {<< WCfgS(S, t, [cfg EXCEPT !.term = @ + 1, !.master = r], FALSE) >> : r \in live} \* MS-elect

ConnPlans(S, id) ==
    IF id \in DOMAIN S.conns
    THEN IF id \in DOMAIN S.rels THEN {<< >>} ELSE {<< CRel(id, S.conns[id]) >>}                   \* CN-add
    ELSE IF id \in DOMAIN S.rels THEN {<< DRel(id) >>} ELSE {<< >>}                                \* CN-del

Plans(S, c, id) ==
    CASE c = "tx" -> TxPlans(S, id)
      [] c = "prop" -> PropPlans(S, id)
      [] c = "cfg" -> CfgPlans(S, id)
      [] c = "mast" -> MastPlans(S, id)
      [] c = "conn" -> ConnPlans(S, id)

\* the proposal controller is partitioned by target; every other controller is one partition
ActorOf(S, c, id) == IF c = "prop" /\ id \in DOMAIN S.props THEN "prop:" \o S.props[id].t
                     ELSE IF c = "prop" THEN "prop:?" ELSE c

-----------------------------------------------------------------------------
(* Initial state and actions *)

Init ==
    /\ up = TRUE
    /\ txs = << >>
    /\ props = EmptyFn /\ cfgs = EmptyFn /\ vers = EmptyFn /\ rels = EmptyFn /\ conns = EmptyFn
    /\ dev = [t \in Targets |-> [vals |-> EmptyFn, boot |-> 0, maxeid |-> 0]]
    /\ failq = [t \in Targets |-> << >>]
    \* the topo watchers replay the existing (configurable) target entities
    /\ q = [c \in Ctls |-> IF c \in {"cfg", "mast"} THEN Targets ELSE {}]
    /\ infl = EmptyFn
    /\ h = EmptyFn
    /\ devlog = << >> /\ mergelog = << >> /\ pluglog = << >>

Busy(a) == a \in DOMAIN infl

\* Reconcile(id) in one step
Deliver(c, id) ==
    /\ up /\ ~(Fine /\ c \in FineCtls)
    /\ id \in q[c]
    /\ ~Busy(ActorOf(Pack, c, id))
    /\ \E plan \in Plans(Pack, c, id) :
          LET S0 == [Pack EXCEPT !.q[c] = @ \ {id}]
              r == RunPlan(S0, plan)
          IN Unpack(IF r.err THEN Wake(r.S, c, {id}) ELSE r.S)
    /\ UNCHANGED <<up, conns, infl>>

\* a delivery of an id that is not pending: the runtime hands over every event and every re-queue
\* separately (a multiset), so the same id can be reconciled again without any new event; the work
\* SETS of this specification abstract from that, Force puts it back (and is what the harness'
\* quiescence probe does)
Force(c, id) ==
    /\ up /\ ~Fine
    /\ \E plan \in Plans(Pack, c, id) :
          LET r == RunPlan(Pack, plan)
          IN Unpack(IF r.err THEN Wake(r.S, c, {id}) ELSE r.S)
    /\ UNCHANGED <<up, conns, infl>>

\* Fine: the reads of Reconcile(id), up to (not including) its first persisted effect
Begin(c, id) ==
    /\ up /\ Fine /\ c \in FineCtls
    /\ id \in q[c]
    /\ ~Busy(ActorOf(Pack, c, id))
    /\ \E plan \in Plans(Pack, c, id) :
          /\ q' = [q EXCEPT ![c] = @ \ {id}]
          /\ IF plan = << >> THEN infl' = infl
             ELSE infl' = Put(infl, ActorOf(Pack, c, id), [c |-> c, id |-> id, plan |-> plan])
    /\ UNCHANGED <<up, txs, props, cfgs, vers, rels, conns, dev, failq, h, devlog, mergelog, pluglog>>

\* Fine: one persisted effect (or the final Result) of an in-flight reconcile
Exec(a) ==
    /\ up /\ Fine /\ Busy(a)
    /\ LET f == infl[a]
           r == Apply(Pack, Head(f.plan))
           rest == IF r.go.k = "cont" THEN Tail(f.plan)
                   ELSE IF r.go.k \in {"stop", "err"} THEN << >> ELSE r.go.then
           S1 == IF r.go.k = "err" THEN Wake(r.S, f.c, {f.id}) ELSE r.S
       IN /\ Unpack(S1)
          /\ infl' = IF rest = << >> THEN Drop(infl, {a}) ELSE Put(infl, a, [f EXCEPT !.plan = rest])
    /\ UNCHANGED <<up, conns>>

\* --- northbound ---------------------------------------------------------------------------
NewTx(i, req) ==
    [i |-> i, kind |-> req.kind, rb |-> req.rb, sync |-> req.sync, ser |-> FALSE, ch |-> req.ch,
     state |-> "PENDING", ph |-> NoPhases, props |-> {}, fail |-> "-"]

NewHandler(req, i) ==
    [kind |-> IF req.kind = "change" THEN "set" ELSE "rollback", sync |-> req.sync, rb |-> req.rb, ch |-> req.ch,
     st |-> "waiting", tx |-> i, ok |-> FALSE, code |-> 0, ridx |-> 0, rown |-> FALSE, results |-> {}]

\* a Set / rollback request: transactions.Create then transactions.Watch(replay), atomically here
\* (their separation is the subject of the Fine handler actions below)
ClientRequest(n, req) ==
    /\ up
    /\ n \notin DOMAIN h
    /\ LET i == Len(txs) + 1
           tx == NewTx(i, req)
       IN /\ txs' = Append(txs, tx)
          /\ vers' = Put(vers, <<"tx", i>>, 1)
          /\ q' = [q EXCEPT !["tx"] = @ \cup {i}]
          /\ h' = Put(h, n, NewHandler(req, i))
    /\ UNCHANGED <<up, props, cfgs, rels, conns, dev, failq, infl, devlog, mergelog, pluglog>>

\* The same request at the granularity of the handler's two store calls (C08): the controllers may
\* run none, some or all phases of the transaction between Create and Watch.
ClientStart(n, req) ==
    /\ up
    /\ n \notin DOMAIN h
    /\ h' = Put(h, n, [NewHandler(req, 0) EXCEPT !.st = "new"])
    /\ UNCHANGED <<up, txs, props, cfgs, vers, rels, conns, dev, failq, q, infl, devlog, mergelog, pluglog>>

\* transactions.Create: the request is in the log
ClientCreate(n) ==
    /\ up
    /\ n \in DOMAIN h /\ h[n].st = "new"
    /\ LET i == Len(txs) + 1
           req == [kind |-> IF h[n].kind = "set" THEN "change" ELSE "rollback", sync |-> h[n].sync, rb |-> h[n].rb, ch |-> h[n].ch]
       IN /\ txs' = Append(txs, NewTx(i, req))
          /\ vers' = Put(vers, <<"tx", i>>, 1)
          /\ q' = [q EXCEPT !["tx"] = @ \cup {i}]
          /\ h' = [h EXCEPT ![n].st = "created", ![n].tx = i]
    /\ UNCHANGED <<up, props, cfgs, rels, conns, dev, failq, infl, devlog, mergelog, pluglog>>

\* transactions.Watch(replay, id): the listener is registered and the current record is replayed to it
ClientWatch(n) ==
    /\ up
    /\ n \in DOMAIN h /\ h[n].st = "created"
    /\ h' = [h EXCEPT ![n] = HandlerSees([h[n] EXCEPT !.st = "waiting"], txs[h[n].tx])]
    /\ UNCHANGED <<up, txs, props, cfgs, vers, rels, conns, dev, failq, q, infl, devlog, mergelog, pluglog>>

\* --- environment --------------------------------------------------------------------------
ConnUp(t, id) ==
    /\ up
    /\ id \notin DOMAIN conns /\ id \notin DOMAIN rels
    /\ conns' = Put(conns, id, t)
    /\ q' = [q EXCEPT !["conn"] = @ \cup {id}]
    /\ UNCHANGED <<up, txs, props, cfgs, vers, rels, dev, failq, infl, h, devlog, mergelog, pluglog>>

ConnDown(id) ==
    /\ up
    /\ id \in DOMAIN conns
    /\ conns' = Drop(conns, {id})
    /\ q' = [q EXCEPT !["conn"] = @ \cup {id}]
    /\ UNCHANGED <<up, txs, props, cfgs, vers, rels, dev, failq, infl, h, devlog, mergelog, pluglog>>

DevRestart(t) ==
    \* the device reboots and loses its running configuration; its connections break with it
    /\ dev' = [dev EXCEPT ![t] = [vals |-> EmptyFn, boot |-> @.boot + 1, maxeid |-> 0]]
    /\ LET lost == {id \in DOMAIN conns : conns[id] = t} IN
         /\ conns' = Drop(conns, lost)
         /\ q' = IF up THEN [q EXCEPT !["conn"] = @ \cup lost] ELSE q
    /\ UNCHANGED <<up, txs, props, cfgs, vers, rels, failq, infl, h, devlog, mergelog, pluglog>>

DevFail(t, code, n) ==
    /\ TRUE
    /\ failq' = [failq EXCEPT ![t] = @ \o [x \in 1..n |-> code]]
    /\ UNCHANGED <<up, txs, props, cfgs, vers, rels, conns, dev, q, infl, h, devlog, mergelog, pluglog>>

\* the process stops: everything volatile is lost; paused reconciles never perform their next effect
Crash ==
    /\ up
    /\ up' = FALSE
    /\ conns' = EmptyFn
    /\ q' = [c \in Ctls |-> {}]
    /\ infl' = EmptyFn
    /\ h' = [n \in DOMAIN h |-> IF h[n].st = "done" THEN h[n] ELSE [h[n] EXCEPT !.st = "lost"]]
    /\ UNCHANGED <<txs, props, cfgs, vers, rels, dev, failq, devlog, mergelog, pluglog>>

\* a new process: every watcher replays every record
Restart ==
    /\ ~up
    /\ up' = TRUE
    /\ q' = [c \in Ctls |->
               CASE c = "tx" -> (1..Len(txs)) \cup {props[id].i : id \in DOMAIN props}
                 [] c = "prop" -> (DOMAIN props) \cup UNION {{PID(t, cfgs[t].index), PID(t, cfgs[t].applied)} : t \in DOMAIN cfgs}
                 [] c = "cfg" -> (DOMAIN dev) \cup DOMAIN cfgs
                 [] c = "mast" -> (DOMAIN dev) \cup DOMAIN cfgs \cup {rels[r] : r \in DOMAIN rels}
                 [] c = "conn" -> DOMAIN rels]
    /\ UNCHANGED <<txs, props, cfgs, vers, rels, conns, dev, failq, infl, h, devlog, mergelog, pluglog>>

Next ==
    \/ \E c \in Ctls : \E id \in q[c] : Deliver(c, id) \/ Begin(c, id)
    \/ \E a \in DOMAIN infl : Exec(a)
    \/ \E n \in HandlerNames, req \in Requests : ClientRequest(n, req) \/ ClientStart(n, req)
    \/ \E n \in DOMAIN h : ClientCreate(n) \/ ClientWatch(n)
    \/ \E t \in Targets, id \in ConnIds : ConnUp(t, id)
    \/ \E id \in ConnIds : ConnDown(id)
    \/ \E t \in Targets : DevRestart(t)
    \/ \E t \in Targets, code \in FailCodes, n \in 1..2 : DevFail(t, code, n)
    \/ Crash
    \/ Restart

Spec == Init /\ [][Next]_vars

\* --- derived state predicates used by the properties ----------------------------------------
Quiescent == up /\ infl = EmptyFn /\ \A c \in Ctls : q[c] = {}
=============================================================================
