\* GENERATED by tools/gen_v2_configs.py
CONSTANTS
 Targets <- S_Targets
 ConnIds <- S_ConnIds
 ConnSeq <- S_ConnSeq
 Requests <- S_Requests
 HandlerNames <- S_HandlerNames
 HandlerSeq <- S_HandlerSeq
 FailCodes <- S_FailCodes
 MaxCrashes = 0
 MaxConnEvents = 5
 MaxDevRestarts = 2
 MaxFailBursts = 0
 MaxSteps = 170
 Fine = FALSE
 FineCtls = {"tx", "prop", "cfg", "mast", "conn"}
 FineClients = FALSE
 AllPaths <- PU_All
 GoParent <- PU_GoParent
 TextPrefix <- PU_TextPrefix
 ElemPrefix <- PU_ElemPrefix
 Rank <- PU_Rank
INIT MCInit
NEXT MCNext
CHECK_DEADLOCK FALSE
INVARIANT Export