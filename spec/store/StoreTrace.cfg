SPECIFICATION Spec
CHECK_DEADLOCK FALSE
POSTCONDITION Accepted
INVARIANT Report
