----------------------------- MODULE StoreTrace -----------------------------
(***************************************************************************)
(* C15.  The record stores as versioned registers with a log-index         *)
(* allocator and watchers.  A history (harness/cmd/storerun) is the        *)
(* sequence of invoke / return events of several concurrent clients on the *)
(* REAL store, ordered by a global sequence number, plus what every        *)
(* watcher was shown.  The returned versions are the witnesses of the      *)
(* linearisation order, so the properties are predicates of the history:   *)
(*  - an update conditioned on version b takes effect only if b is the     *)
(*    current version: no two successful updates share a base, nothing is  *)
(*    written between the base and the new version (CasExclusive, Chain);  *)
(*  - versions and indexes respect real time (VersionsGrow, IndexOrder);   *)
(*  - an update is refused only if its base was superseded                 *)
(*    (NoFalseConflict);                                                   *)
(*  - every live watcher is shown, in order, the latest version of every   *)
(*    record it covers, although another watcher stopped consuming and     *)
(*    cancelled (WatcherSeesLatest = CancelIsolated, WatcherOrder, Replay).*)
(***************************************************************************)
EXTENDS Integers, Sequences, FiniteSets, TLC, Json, IOUtils

TraceFile == IF "TRACE" \in DOMAIN IOEnv THEN IOEnv.TRACE ELSE "store.ndjson"
Trace == TLCEval(ndJsonDeserialize(TraceFile))

VARIABLES l, h
Init == l = 0 /\ h = [kind |-> "none"]
Next == l < Len(Trace) /\ l' = l + 1 /\ h' = Trace[l + 1]
Spec == Init /\ [][Next]_<<l, h>>
Accepted == TLCGet("stats").diameter - 1 = Len(Trace)

Range(s) == {s[x] : x \in DOMAIN s}
IsH == h.kind = "history"
Rets == {e \in Range(h.events) : e.k = "ret"}
Writes == {e \in Rets : e.ok /\ e.op \in {"create", "update", "updatestatus"}}
Updates == {e \in Rets : e.op \in {"update", "updatestatus"}}
OkUpdates == {e \in Updates : e.ok}
Creates == {e \in Rets : e.ok /\ e.op = "create"}
Gets == {e \in Rets : e.ok /\ e.op = "get"}
Before(a, b) == a.seq < b.inv      \* a returned before b was invoked

RECURSIVE Increasing(_)
\* (a replayed record may be shown again by the live stream: never older after newer, repeats allowed)
Increasing(s) == Len(s) <= 1 \/ (s[1] <= s[2] /\ Increasing(Tail(s)))

Covers(w, k) == w.key = "" \/ w.key = k
Good == {n \in DOMAIN h.watchers : ~h.watchers[n].bad}

Clauses ==
    [ C15_CasExclusive |-> IsH => \A a, b \in OkUpdates : (a # b /\ a.key = b.key) => a.base # b.base,
      C15_Chain |-> IsH => \A a \in OkUpdates : a.ver > a.base /\ ~\E w \in Writes : w.key = a.key /\ a.base < w.ver /\ w.ver < a.ver,
      C15_VersionsGrow |-> IsH => /\ \A a, b \in Writes : (a.key = b.key /\ Before(a, b)) => a.ver < b.ver
                                  /\ \A g \in Gets : /\ \A w \in Writes : (w.key = g.key /\ Before(w, g)) => g.ver >= w.ver
                                                     /\ \E w \in Writes : w.key = g.key /\ w.ver = g.ver /\ w.inv < g.seq,
      C15_NoFalseConflict |-> IsH => \A a \in Updates : (~a.ok) => \E w \in Writes : w.key = a.key /\ w.ver > a.base /\ w.inv < a.seq,
      C15_IndexNeverReused |-> (IsH /\ h.hasindex) => /\ \A a, b \in Creates : a # b => a.idx # b.idx
                                                      /\ \A a, b \in Creates : Before(a, b) => a.idx < b.idx,
      C15_WatcherSeesLatest |-> IsH => \A n \in Good : \A k \in DOMAIN h.final : Covers(h.watchers[n], k) =>
                                           (k \in DOMAIN h.watchers[n].final /\ h.watchers[n].final[k]),
      \* diagnostics only (the property asks for the latest state eventually, not for monotone delivery)
      D15_WatcherOrder |-> IsH => \A n \in Good : \A k \in DOMAIN h.watchers[n].seen : Increasing(h.watchers[n].seen[k]),
      C15_ReplayShowsExisting |-> IsH => \A n \in Good : h.watchers[n].replay =>
                                           \A k \in {"k1", "k2"} : Covers(h.watchers[n], k) => (k \in DOMAIN h.watchers[n].seen /\ h.watchers[n].seen[k] # << >>),
      C15_WatcherShowsWrittenVersions |-> IsH => \A n \in Good : \A k \in DOMAIN h.watchers[n].seen : \A v \in Range(h.watchers[n].seen[k]) :
                                           \E w \in Writes : w.key = k /\ w.ver = v ]

Report ==
    LET bad == {c \in DOMAIN Clauses : ~Clauses[c]} IN
    bad = {} \/ PrintT(<<"VIOLATION", l, bad>>)
=============================================================================
