------------------------------ MODULE NbModel ------------------------------
(***************************************************************************)
(* Northbound request handling as functions from a request (case) to its   *)
(* documented outcome: admission and landing of Set operations (C13), the  *)
(* administrator-group rule (C14), splitting and relaying of subscriptions *)
(* (C19), and "every request shape is answered" (C12).  The case spaces    *)
(* are finite; TLC enumerates them (NbCases) and evaluates the outcome     *)
(* functions again on what the REAL handlers answered (NbTrace).           *)
(***************************************************************************)
EXTENDS Integers, Sequences, FiniteSets, TLC

Range(s) == {s[x] : x \in DOMAIN s}
EmptyFn == [x \in {} |-> 0]

\* ---------------------------------------------------------------- world of the cases
KnownTargets == {"t1", "t2"}
\* the simulated model (harness/world/plugin.go, DefaultSchema)
WritableLeaves == {"/a/b", "/a/c", "/a/e/d", "/ab", "/l[k=1]/x", "/l[k=1]/y", "/l[k=1]/k"}
KeyLeaf(p) == p = "/l[k=1]/k"
KeyValueOf(p) == "1"
\* paths a delete may name: a writable leaf, or a node above writable leaves
Deletable == WritableLeaves \cup {"/a", "/a/e", "/l", "/l[k=1]"}
\* a delete naming a key leaf removes the list entry
DeleteLanding(p) == IF KeyLeaf(p) THEN "/l[k=1]" ELSE p

\* ---------------------------------------------------------------- C13: admission and landing of Set
\* case: [limit, ext, ptarget, pelems, ops : Seq([op, target, rel, val])]
EffTarget(c, o) == IF c.ptarget # "" THEN c.ptarget ELSE o.target
EffPath(c, o) == c.pelems \o o.rel

OpRefused(c, o) ==
    \/ EffTarget(c, o) \notin KnownTargets
    \/ o.op = "update" /\ EffPath(c, o) \notin WritableLeaves
    \/ o.op = "update" /\ KeyLeaf(EffPath(c, o)) /\ o.val # KeyValueOf(EffPath(c, o))
    \/ o.op = "delete" /\ EffPath(c, o) \notin Deletable

TargetsOfCase(c) == {EffTarget(c, c.ops[n]) : n \in DOMAIN c.ops}
\* operations counted against the limit: distinct updated paths plus every delete, per target
OpsOn(c, t) ==
    Cardinality({EffPath(c, c.ops[n]) : n \in {m \in DOMAIN c.ops : c.ops[m].op = "update" /\ EffTarget(c, c.ops[m]) = t}})
    + Cardinality({n \in DOMAIN c.ops : c.ops[n].op = "delete" /\ EffTarget(c, c.ops[n]) = t})

SetRefused(c) ==
    \/ c.ext = "bad"
    \/ c.ops = << >>
    \/ \E n \in DOMAIN c.ops : OpRefused(c, c.ops[n])
    \/ c.limit > 0 /\ Cardinality(TargetsOfCase(c)) # 1
    \/ c.limit > 0 /\ \E t \in TargetsOfCase(c) : OpsOn(c, t) > c.limit

\* where each operation lands: target -> path -> value | "DEL" (deletes take effect first: an updated path is updated)
Landing(c) ==
    [t \in TargetsOfCase(c) |->
        LET mine == {n \in DOMAIN c.ops : EffTarget(c, c.ops[n]) = t}
            dels == {DeleteLanding(EffPath(c, c.ops[n])) : n \in {m \in mine : c.ops[m].op = "delete"}}
            upds == {EffPath(c, c.ops[n]) : n \in {m \in mine : c.ops[m].op = "update"}}
        IN [p \in dels \cup upds |->
              IF p \notin upds THEN "DEL"
              ELSE LET last == CHOOSE n \in mine : c.ops[n].op = "update" /\ EffPath(c, c.ops[n]) = p
                                   /\ \A m \in mine : (c.ops[m].op = "update" /\ EffPath(c, c.ops[m]) = p) => m <= n
                   IN c.ops[last].val]]

\* ---------------------------------------------------------------- C14: administrator groups
\* case: [admin : Seq(STRING), ident : BOOLEAN, groups : Seq(STRING)]
SetAllowed(c) == ~c.ident \/ \E n \in DOMAIN c.groups : c.groups[n] # "" /\ c.groups[n] \in Range(c.admin)
\* case: [oidc : BOOLEAN, ident : BOOLEAN, groups : Seq(STRING)]
RocAdmin == "AetherROCAdmin"
Visible(c) == IF ~c.oidc THEN KnownTargets
              ELSE {t \in KnownTargets : c.ident /\ (t \in Range(c.groups) \/ RocAdmin \in Range(c.groups))}

\* ---------------------------------------------------------------- C19: subscriptions
\* case: [prefix : "nil" | "none" | target, msgs : Seq([k : "sub" | "poll" | "other", mode, entries : Seq(target)])]
\* the targets a subscribe message reaches and the entries (by position) each of them is sent
SubTargets(c, m) ==
    IF c.prefix \notin {"nil", "none"} THEN {c.prefix}
    ELSE {m.entries[n] : n \in DOMAIN m.entries} \ {""}
EntriesFor(c, m, t) ==
    IF c.prefix \notin {"nil", "none"} THEN [n \in DOMAIN m.entries |-> n]
    ELSE LET idx == {n \in DOMAIN m.entries : m.entries[n] = t}
             RECURSIVE Sorted(_)
             Sorted(S) == IF S = {} THEN << >> ELSE LET mn == CHOOSE x \in S : \A y \in S : x <= y IN <<mn>> \o Sorted(S \ {mn})
         IN Sorted(idx)

\* run the message sequence: [ok, subscribed (targets), sent : target -> entries, polls : target -> count, refusedAt]
RECURSIVE RunSub(_, _, _)
RunSub(c, n, st) ==
    IF n > Len(c.msgs) \/ st.refusedAt # 0 THEN st
    ELSE LET m == c.msgs[n] IN
         IF m.k = "sub" THEN
             IF st.subscribed # {} \/ st.seen THEN RunSub(c, n + 1, [st EXCEPT !.refusedAt = n])
             ELSE IF SubTargets(c, m) = {} THEN RunSub(c, n + 1, [st EXCEPT !.refusedAt = n, !.seen = TRUE])
             ELSE RunSub(c, n + 1, [st EXCEPT !.seen = TRUE, !.subscribed = SubTargets(c, m),
                                              !.sent = [t \in SubTargets(c, m) |-> [mode |-> m.mode, entries |-> EntriesFor(c, m, t)]]])
         ELSE IF m.k = "poll" THEN
             IF ~st.seen THEN RunSub(c, n + 1, [st EXCEPT !.refusedAt = n])
             ELSE RunSub(c, n + 1, [st EXCEPT !.polls = [t \in st.subscribed |-> IF t \in DOMAIN st.polls THEN st.polls[t] + 1 ELSE 1]])
         ELSE RunSub(c, n + 1, [st EXCEPT !.refusedAt = n])

SubOutcome(c) == RunSub(c, 1, [seen |-> FALSE, subscribed |-> {}, sent |-> EmptyFn, polls |-> EmptyFn, refusedAt |-> 0])
=============================================================================
