CONSTANT Family = "c13"
INIT Init
NEXT Next
CHECK_DEADLOCK FALSE
INVARIANT Export
