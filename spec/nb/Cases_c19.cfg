CONSTANT Family = "c19"
INIT Init
NEXT Next
CHECK_DEADLOCK FALSE
INVARIANT Export
