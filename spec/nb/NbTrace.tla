------------------------------ MODULE NbTrace ------------------------------
(* Validation of what the REAL northbound handlers answered (harness/cmd/nbrun) against NbModel. *)
EXTENDS NbModel, Json, IOUtils

TraceFile == IF "TRACE" \in DOMAIN IOEnv THEN IOEnv.TRACE ELSE "nb.ndjson"
Trace == TLCEval(ndJsonDeserialize(TraceFile))

VARIABLES l, obs
Init == l = 0 /\ obs = [kind |-> "none", panic |-> ""]
Next == l < Len(Trace) /\ l' = l + 1 /\ obs' = Trace[l + 1]
Spec == Init /\ [][Next]_<<l, obs>>
Accepted == TLCGet("stats").diameter - 1 = Len(Trace)

c == obs.case
IsAdm == obs.kind = "admission"
IsRbacSet == obs.kind = "rbac-set"
IsRbacList == obs.kind = "rbac-list"
IsSub == obs.kind = "subscribe"

SortedTargets(S) == IF S = {} THEN << >> ELSE IF S = {"t1"} THEN <<"t1">> ELSE IF S = {"t2"} THEN <<"t2">> ELSE <<"t1", "t2">>

Clauses ==
    [ C12_NoPanic |-> obs.kind # "none" => obs.panic = "",
      \* C13
      C13_Answered |-> IsAdm => obs.answered,
      C13_RefusedChangesNothing |-> (IsAdm /\ ~obs.ok) => obs.created = 0,
      C13_DocumentedRefusals |-> (IsAdm /\ SetRefused(c)) => ~obs.ok,
      C13_LandsAsNamed |-> (IsAdm /\ obs.ok /\ ~SetRefused(c)) => (obs.created = 1 /\ obs.change = Landing(c)),
      \* C14
      C14_OnlyAdminsSet |-> IsRbacSet => (obs.ok <=> SetAllowed(c)),
      C14_RefusedLogsNothing |-> (IsRbacSet /\ ~obs.ok) => obs.created = 0,
      C14_ListingFiltered |-> IsRbacList => (obs.ok /\ Range(obs.targets) = Visible(c) /\ Len(obs.targets) = Cardinality(Visible(c))),
      \* C19
      C19_Refusals |-> IsSub => obs.refusedat = SubOutcome(c).refusedAt,
      C19_ForwardedExactly |-> (IsSub /\ obs.panic = "") =>
            LET out == SubOutcome(c) IN
            /\ DOMAIN obs.sent = DOMAIN out.sent
            /\ \A t \in DOMAIN out.sent : obs.sent[t].entries = out.sent[t].entries /\ obs.sent[t].exact /\ obs.sent[t].mode = out.sent[t].mode,
      C19_PollFanout |-> (IsSub /\ obs.panic = "") => obs.polls = SubOutcome(c).polls,
      C19_Relayed |-> (IsSub /\ obs.panic = "") => obs.relayed = SortedTargets(SubOutcome(c).subscribed) ]

\* the handlers refuse more than the documented refusals (diagnostics only: the model of admission is incomplete)
Stricter == IsAdm /\ ~obs.ok /\ ~SetRefused(c)

Report ==
    LET bad == {n \in DOMAIN Clauses : ~Clauses[n]} IN
    /\ bad = {} \/ PrintT(<<"VIOLATION", l, bad>>)
    /\ ~Stricter \/ PrintT(<<"STRICTER", l>>)
=============================================================================
