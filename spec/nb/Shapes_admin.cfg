CONSTANT Family = "admin"
INIT Init
NEXT Next
CHECK_DEADLOCK FALSE
INVARIANT Export
