CONSTANT Family = "sub"
INIT Init
NEXT Next
CHECK_DEADLOCK FALSE
INVARIANT Export
