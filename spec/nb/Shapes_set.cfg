CONSTANT Family = "set"
INIT Init
NEXT Next
CHECK_DEADLOCK FALSE
INVARIANT Export
