------------------------------- MODULE Shapes -------------------------------
(***************************************************************************)
(* C12: a grammar of request SHAPES for every northbound RPC.  Each        *)
(* optional field is absent / empty / populated; paths, keys, values and   *)
(* extensions range over classes that contain the hazards of the parsers   *)
(* (brackets, separators, escapes, regular-expression metacharacters,      *)
(* wildcards, empty names, nil members).  The property in the              *)
(* specification is that the outcome of every shape is a response or a     *)
(* status: Outcome(shape) \in {"response", "status"} - never a crash.      *)
(* TLC enumerates the shapes; the harness instantiates each class with     *)
(* concrete bytes and calls the REAL handler under recover().              *)
(***************************************************************************)
EXTENDS Integers, Sequences, FiniteSets, TLC, Json

CONSTANT Family
VARIABLE case

PathClasses == {"nil", "empty", "/a/b", "/a", "/l[k=1]/x", "/l[k=*]/x", "/l[k=1]/k", "/l[k=1]", "/zz", "paren-open", "paren-close",
                "bracket-open-name", "bracket-close-name", "equals-name", "backslash", "star", "ellipsis", "a-ellipsis", "colon-prefix",
                "double-slash", "elem-empty-name", "elem-nil", "key-empty-name", "key-empty-value", "key-bracket", "key-slash", "key-equals",
                "plus", "question", "pipe", "caret-dollar", "braces", "long", "unicode", "m-partial-key"}
ValueClasses == {"nil", "empty", "string", "int", "uint", "bool", "bytes", "float", "decimal", "json-valid", "json-invalid", "json-array",
                 "jsonietf", "leaflist-str", "leaflist-mixed", "leaflist-nilelem", "leaflist-empty", "ascii", "any", "proto-bytes", "huge-int",
                 "decimal-p64", "decimal-neg"}
Targets == {"", "t1", "*", "tX"}
Prefixes == {"nil", "empty", "t1", "t1-elems", "elems-only", "star", "paren"}
Exts == {"none", "garbage-111", "garbage-100", "garbage-110", "nil-ext", "sync", "overrides-unknown", "overrides-t1", "master-arb", "nil-registered",
         "overrides-empty", "overrides-unknown-fields", "overrides-nil-value"}
Encodings == {"PROTO", "JSON", "JSON_IETF", "ASCII", "BYTES", "99"}
GetTypes == {"ALL", "CONFIG", "STATE", "OPERATIONAL"}

GetShapes == [rpc : {"get"}, prefix : Prefixes, target : Targets, path : PathClasses, npaths : {0, 1, 2}, enc : Encodings, type : GetTypes, ext : Exts, populated : BOOLEAN]
SetShapes == [rpc : {"set"}, prefix : Prefixes, target : Targets, op : {"update", "replace", "delete", "none"}, path : PathClasses, val : ValueClasses, ext : Exts, nilupdate : BOOLEAN]
SubShapes == [rpc : {"sub"}, first : {"nil-msg", "empty-msg", "sub-nil-list", "sub-empty-list", "sub", "poll", "aliases"}, prefix : Prefixes, path : PathClasses, target : Targets,
              second : {"none", "sub", "poll", "empty-msg"}]
AdminShapes == [rpc : {"leafsel"}, reqnil : {FALSE}, target : {"t1"}, type : {"vmodel"}, selpath : PathClasses, ctx : {"nil", "empty", "update", "delete", "json"}, path : PathClasses, val : {"string"}]
               \cup [rpc : {"leafsel"}, reqnil : BOOLEAN, target : {"", "t1", "tX"}, type : {"", "vmodel", "other"}, selpath : {"/a/b", "nil", "paren-open", "star"},
                      ctx : {"nil", "update"}, path : {"/a/b", "paren-open"}, val : ValueClasses]
               \cup [rpc : {"rollback"}, index : {0, 1, 2, 99, 2147483647}]
               \cup [rpc : {"caps", "models", "gettx", "getcfg", "listtx", "listcfg"}, id : {"", "x", "t1-vmodel-1.0.0"}, populated : BOOLEAN]

\* exhaustive cores: a few fields range over all their classes, the others keep a default
GetCore == [rpc : {"get"}, prefix : Prefixes, target : Targets, path : PathClasses, npaths : {1}, enc : Encodings, type : {"ALL"}, ext : {"none"}, populated : {TRUE}]
           \cup [rpc : {"get"}, prefix : {"t1"}, target : {"t1"}, path : PathClasses, npaths : {0, 1, 2}, enc : {"PROTO", "JSON"}, type : GetTypes, ext : Exts, populated : BOOLEAN]
SetCore == [rpc : {"set"}, prefix : {"nil"}, target : {"t1"}, op : {"update", "replace", "delete", "none"}, path : PathClasses, val : ValueClasses, ext : {"none"}, nilupdate : {FALSE}]
           \cup [rpc : {"set"}, prefix : Prefixes, target : Targets, op : {"update", "delete"}, path : PathClasses, val : {"string"}, ext : {"none"}, nilupdate : BOOLEAN]
           \cup [rpc : {"set"}, prefix : {"t1", "nil"}, target : {"t1", ""}, op : {"update", "delete"}, path : {"/a/b", "nil", "paren-open"}, val : {"string", "nil", "json-valid"}, ext : Exts, nilupdate : {FALSE}]

Cases == CASE Family = "get" -> GetCore [] Family = "set" -> SetCore [] Family = "sub" -> SubShapes [] Family = "admin" -> AdminShapes
           [] Family = "getall" -> GetShapes [] Family = "setall" -> SetShapes

\* random sampling of the full products (used with -simulate num=1 -depth N: one random shape per step; the
\* arguments of RandomElement are made state-dependent so that TLC does not evaluate them once as constants)
R(S) == RandomElement(IF case = case THEN S ELSE {})
RandomGet == [rpc |-> "get", prefix |-> R(Prefixes), target |-> R(Targets), path |-> R(PathClasses), npaths |-> R({0, 1, 2}), enc |-> R(Encodings),
              type |-> R(GetTypes), ext |-> R(Exts), populated |-> R(BOOLEAN)]
RandomSet == [rpc |-> "set", prefix |-> R(Prefixes), target |-> R(Targets), op |-> R({"update", "replace", "delete", "none"}), path |-> R(PathClasses),
              val |-> R(ValueClasses), ext |-> R(Exts), nilupdate |-> R(BOOLEAN)]
SimInit == case = [rpc |-> "none"]
SimNext == case' = IF R({1, 2}) = 1 THEN RandomGet ELSE RandomSet

\* the property, at the level of the specification: every shape has an outcome, and it is not a crash
Outcome(shape) == CHOOSE o \in {"response", "status"} : TRUE
NoShapeCrashes == \A s \in Cases : Outcome(s) \in {"response", "status"}

Init == case \in Cases
Next == UNCHANGED case
Export == PrintT(<<"CASE", ToJson([kind |-> "shape", shape |-> case])>>)
=============================================================================
