CONSTANT Family = "get"
INIT Init
NEXT Next
CHECK_DEADLOCK FALSE
INVARIANT Export
