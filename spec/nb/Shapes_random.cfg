CONSTANT Family = "get"
INIT SimInit
NEXT SimNext
CHECK_DEADLOCK FALSE
INVARIANT Export
