------------------------------ MODULE NbCases ------------------------------
(* Enumeration of the case spaces of NbModel: one initial state per case, printed as JSON. *)
EXTENDS NbModel, Json

CONSTANT Family   \* "c13" | "c14set" | "c14list" | "c19"
VARIABLE case

\* --- C13
Rels == {"/a/b", "/b", "/zz", "/l[k=1]/k", "/a", "/a/c", "/k", "/x"}
Ops13 == [op : {"update", "delete"}, target : {"", "t1", "tX"}, rel : Rels, val : {"1", "2"}]
OpSeqs13 == {<< >>} \cup {<<a>> : a \in Ops13} \cup {<<a, b>> : a \in Ops13, b \in Ops13}
Cases13 == [kind : {"admission"}, limit : {0, 1, 2}, ext : {"none", "sync", "bad"}, ptarget : {"", "t2"}, pelems : {"", "/a", "/l[k=1]"}, ops : OpSeqs13]

\* --- C14
\* a group name is one token of the ";"-joined list the interceptor hands over: blanks and commas are part of the name
Tokens == {"admin", "adm", "admin2", "ops", "", "other", "t1", "AetherROCAdmin", "zz admin", "ops,admin"}
GroupSeqs == {<< >>} \cup {<<a>> : a \in Tokens} \cup {<<a, b>> : a \in Tokens, b \in Tokens}
              \cup {<<a, b, c>> : a \in {"adm", "", "other"}, b \in Tokens, c \in {"admin", "ops", "admin2"}}
AdminSettings == {<< >>, <<"admin">>, <<"admin", "ops">>, <<"ops", "admin2">>}
Cases14Set == [kind : {"rbac-set"}, admin : AdminSettings, ident : BOOLEAN, groups : GroupSeqs]
Cases14List == [kind : {"rbac-list"}, oidc : BOOLEAN, ident : BOOLEAN, groups : GroupSeqs]

\* --- C19
Entries == {<< >>} \cup {<<a>> : a \in {"", "t1", "t2"}} \cup {<<a, b>> : a \in {"", "t1", "t2"}, b \in {"", "t1", "t2"}}
            \cup {<<"t1", "t2", "t1">>, <<"t2", "", "t1">>}
Msgs19 == [k : {"sub"}, mode : {"STREAM", "ONCE", "POLL"}, entries : Entries] \cup [k : {"poll", "other"}, mode : {"STREAM"}, entries : {<< >>}]
MsgSeqs19 == {<<a>> : a \in Msgs19} \cup {<<a, b>> : a \in Msgs19, b \in Msgs19}
              \cup {<<a, b, c>> : a \in [k : {"sub"}, mode : {"POLL"}, entries : {<<"t1", "t2">>, <<"t1">>}], b \in Msgs19, c \in [k : {"poll", "other", "sub"}, mode : {"STREAM"}, entries : {<< >>, <<"t1">>}]}
Cases19 == [kind : {"subscribe"}, prefix : {"nil", "none", "t1"}, msgs : MsgSeqs19]

Cases == CASE Family = "c13" -> Cases13 [] Family = "c14set" -> Cases14Set [] Family = "c14list" -> Cases14List [] Family = "c19" -> Cases19

Init == case \in Cases
Next == UNCHANGED case
Export == PrintT(<<"CASE", ToJson(case)>>)
=============================================================================
