CONSTANT Family = "c14list"
INIT Init
NEXT Next
CHECK_DEADLOCK FALSE
INVARIANT Export
