------------------------------ MODULE OnosV3MC ------------------------------
(***************************************************************************)
(* Bounded exploration of OnosV3: every schedule of reconciles, every      *)
(* death of the process between two persisted effects, every interleaved   *)
(* write between a reconcile's read and its n-th write, client requests    *)
(* and environment faults, within budgets.  The clauses of OnosV3Props are *)
(* invariants; the schedule that led to a state is kept (outside the VIEW) *)
(* so that counterexamples and simulated behaviours can be replayed on the *)
(* real code.                                                              *)
(***************************************************************************)
EXTENDS OnosV3Props, Json, IOUtils

CONSTANTS Changes,     \* the change value maps a client may append
          MaxTx, MaxRb, MaxCut, MaxMid, MaxConn, MaxDevStop, MaxFail, MaxSteps,
          FailCodes, OutOfOrderRb,
          LiveMC,      \* TRUE: a reconcile is a step only if its object is pending in the work sets (wake-up completeness)
          MaxNoop      \* reconciles that have no effect in the specification (a guard makes them wait): legal steps of the real
                       \* system all the same, and the ones a weakened guard turns into effects

VARIABLES w, hist, sched, bud, snap
mcvars == <<w, hist, sched, bud, snap>>
View == <<w, hist, bud, snap>>

Setup == << [k |-> "connect"], [k |-> "rmast"], [k |-> "rcfg"], [k |-> "rcfg"] >>
RECURSIVE ApplyAll(_, _)
ApplyAll(W, sts) == IF sts = << >> THEN W ELSE ApplyAll(Step(W, Head(sts), "c1"), Tail(sts))

MCInit == /\ w = (IF LiveMC THEN ApplyAll(InitW, Setup) ELSE Strip(ApplyAll(InitW, Setup)))
          /\ hist = << >>
          /\ snap = EmptyFn
          /\ sched = Setup
          /\ bud = [noop |-> MaxNoop, rb |-> MaxRb, cut |-> MaxCut, mid |-> MaxMid, conn |-> MaxConn, stop |-> MaxDevStop, fail |-> MaxFail]

IsPending(st) == CASE st.k = "rtx" -> st.i \in w.q.tx
                 [] st.k = "rcfg" -> w.q.cfg
                 [] st.k = "rmast" -> w.q.mast
                 [] OTHER -> TRUE

Do(st, pick, b2) ==
    LET W1 == Step(w, st, pick)
        W2 == IF LiveMC THEN W1 ELSE Strip(W1)     \* the work sets only matter to the live exploration
    IN  /\ W2 # w
        /\ LiveMC => IsPending(st)
        /\ Len(sched) < MaxSteps
        /\ w' = W2
        /\ hist' = hist \o Events(w.txs, W2.txs)
        /\ snap' = NextSnap(snap, w.cfg, W2.cfg)
        /\ sched' = Append(sched, st)
        /\ bud' = b2

\* a reconcile the specification expects to wait (no effect): taken right after a step that left a transaction between its
\* two writes or in progress, where a neighbour's guard is what keeps order
DoNoop(st) ==
    /\ bud.noop > 0
    /\ Len(sched) < MaxSteps
    /\ ~LiveMC
    /\ Step(w, st, "c1") = w
    /\ \E j \in 1..Len(w.txs) :
          /\ j # st.i
          /\ \/ InProgress \in {w.txs[j].cc, w.txs[j].ca, w.txs[j].rc, w.txs[j].ra}
             \/ (w.cfg.cchange >= j /\ w.txs[j].cc = Pending)
             \/ (w.cfg.cindex = j /\ w.txs[j].cc \in {Pending, InProgress})
    /\ sched' = Append(sched, st)
    /\ bud' = [bud EXCEPT !.noop = @ - 1]
    /\ UNCHANGED <<w, hist, snap>>

Picks == IF w.conns = {} THEN {"c1"} ELSE w.conns

\* the rollback requests a client may make: the latest committed change (or, within a budget, any committed change)
RbCandidates == {i \in 1..Len(w.txs) : LatestCommitted(w, i) /\
                    (OutOfOrderRb \/ ~\E j \in 1..Len(w.txs) : j > i /\ w.txs[j].phase = "Change" /\ w.txs[j].cc # Failed)}

MidChoices == {<< [k |-> "rmast"] >>, << [k |-> "rcfg"] >>, << [k |-> "disconnect"] >>}
              \cup {<< [k |-> "rollback", i |-> j] >> : j \in RbCandidates}

MCNext ==
    \/ \E c \in Changes : Len(w.txs) < MaxTx /\ Do([k |-> "append", ch |-> c], "c1", bud)
    \/ \E i \in RbCandidates : bud.rb > 0 /\ Do([k |-> "rollback", i |-> i], "c1", [bud EXCEPT !.rb = @ - 1])
    \/ \E i \in 1..Len(w.txs) :
          \/ Do([k |-> "rtx", i |-> i], "c1", bud)
          \/ \E n \in 1..Len0(PlanTx(w, i)) :
                \/ bud.cut > 0 /\ n > 1 /\ Do([k |-> "rtx", i |-> i, cut |-> n], "c1", [bud EXCEPT !.cut = @ - 1])
                \/ bud.mid > 0 /\ \E m \in MidChoices :
                      Do([k |-> "rtx", i |-> i, at |-> n, mid |-> m], "c1", [bud EXCEPT !.mid = @ - 1])
    \/ \E i \in 1..Len(w.txs) : DoNoop([k |-> "rtx", i |-> i])
    \/ Do([k |-> "rcfg"], "c1", bud)
    \/ \E n \in 2..Len0(PlanCfg(w)) : bud.cut > 0 /\ Do([k |-> "rcfg", cut |-> n], "c1", [bud EXCEPT !.cut = @ - 1])
    \/ \E p \in Picks : Do([k |-> "rmast"], p, bud)
    \/ bud.conn > 0 /\ Do([k |-> "connect"], "c1", [bud EXCEPT !.conn = @ - 1])
    \/ bud.conn > 0 /\ Do([k |-> "disconnect"], "c1", [bud EXCEPT !.conn = @ - 1])
    \/ bud.stop > 0 /\ Do([k |-> "devstop"], "c1", [bud EXCEPT !.stop = @ - 1])
    \/ Do([k |-> "devstart"], "c1", bud)
    \/ \E code \in FailCodes : bud.fail > 0 /\ Do([k |-> "devfail", code |-> code, cnt |-> 1], "c1", [bud EXCEPT !.fail = @ - 1])

MCSpec == MCInit /\ [][MCNext]_mcvars

Stable == StableW(w)

Inv_Order == C20_Order(w, hist)
Inv_CommitBeforeApply == C20_CommitBeforeApply(w, hist)
Inv_FailedBlocks == C20_FailedBlocks(w, hist)
Inv_ConsistencyCommitted == C20_ConsistencyCommitted(w, hist)
Inv_ConsistencyApplied == C20_ConsistencyApplied(w, hist)
Inv_ConsistencyDevice == C20_ConsistencyDevice(w, hist)
Inv_Terminates == C20_Terminates(w, hist, Stable)
Inv_SyncCompletes == C20_SyncCompletes(w, hist, Stable)
\* wake-up completeness: when nothing is pending no reconcile would have an effect (and so, by Inv_Terminates, every
\* transaction that can terminate has)
Inv_WakeupsSuffice == (LiveMC /\ QEmpty(w)) => Stable
Inv_RollbackRestores == C20_RollbackRestores(w, hist, snap)
Inv_AppliedIsCommitted == C20_AppliedIsCommitted(w, hist, Stable)

-----------------------------------------------------------------------------
ExportDir == IF "EXPORT_DIR" \in DOMAIN IOEnv THEN IOEnv.EXPORT_DIR ELSE "."
Finished == Len(sched) = MaxSteps \/ (Len(sched) > Len(Setup) + 3 /\ Stable /\ Len(w.txs) = MaxTx /\ bud.rb = 0)
Export == Finished =>
            JsonSerialize(ExportDir \o "/b" \o ToString(TLCGet("stats").traces) \o "_" \o ToString(Len(sched)) \o ".json",
                          [steps |-> sched])
=============================================================================
