----------------------------- MODULE OnosV3Trace -----------------------------
(***************************************************************************)
(* Trace validation for the v3 protocol.  A trace file is the concatenation *)
(* of traces recorded by the harness from the REAL v3 code (stores,         *)
(* reconcilers, southbound client): one JSON line per step holding the      *)
(* abstract state projected from the real records after that step.          *)
(*   - every clause of OnosV3Props is evaluated by TLC on every real state  *)
(*     (the history of status changes is derived by TLC from successive     *)
(*     real transaction logs): VIOLATION lines, the verdict;                *)
(*   - every recorded step is checked to be the step OnosV3!Step computes   *)
(*     from the state before it: DRIFT lines, diagnostics only.             *)
(***************************************************************************)
EXTENDS OnosV3Props, Json, IOUtils, SequencesExt

TraceFile == IF "TRACE" \in DOMAIN IOEnv THEN IOEnv.TRACE ELSE "trace.ndjson"
Trace == TLCEval(ndJsonDeserialize(TraceFile))

VARIABLES l, w, hist, stable, drift, snap
tvars == <<l, w, hist, stable, drift, snap>>

TxOf(r) == [phase |-> r.phase, values |-> r.values, cc |-> r.cc, ca |-> r.ca, cord |-> r.cord,
            rc |-> r.rc, ra |-> r.ra, rord |-> r.rord, rindex |-> r.rindex, rvalues |-> r.rvalues]

CfgOf(r) == [state |-> r.state, master |-> r.master, mterm |-> r.mterm, aterm |-> r.aterm,
             cindex |-> r.cindex, cchange |-> r.cchange, ctarget |-> r.ctarget, cord |-> r.cord, crev |-> r.crev, cvalues |-> r.cvalues,
             aindex |-> r.aindex, atarget |-> r.atarget, aord |-> r.aord, arev |-> r.arev, avalues |-> r.avalues]

WOf(L) == [txs |-> [k \in DOMAIN L.txs |-> TxOf(L.txs[k])],
           cfg |-> CfgOf(L.cfg),
           conns |-> ToSet(L.conns),
           nconn |-> L.nconn,
           q |-> NoQ,
           dev |-> [up |-> L.dev.up, vals |-> L.dev.vals, boot |-> L.dev.boot, maxeid |-> L.dev.maxeid, failq |-> L.dev.failq]]

TraceInit == /\ l = 0
             /\ w = Strip(InitW)
             /\ hist = << >>
             /\ stable = FALSE
             /\ drift = FALSE
             /\ snap = EmptyFn

\* the recorded step as a step record of the specification
StepOf(a) ==
    CASE a.k = "append" -> [k |-> "append", ch |-> a.ch]
      [] a.k = "rollback" -> [k |-> "rollback", i |-> a.i]
      [] a.k = "rtx" -> [k |-> "rtx", i |-> a.i, cut |-> a.cut, at |-> a.at, mid |-> a.mid]
      [] a.k \in {"rcfg", "rmast"} -> [k |-> a.k, cut |-> a.cut, at |-> a.at, mid |-> a.mid]
      [] a.k = "devfail" -> [k |-> "devfail", code |-> a.code, cnt |-> a.cnt]
      [] OTHER -> [k |-> a.k]

Conforms(W, a, W2) ==
    \/ a.k \in {"init", "drain", "heal", "wdrain", "skip"}   \* skip: a scheduled reconcile whose object no real watcher had woken
    \/ \E pick \in (IF W2.conns = {} THEN {"c1"} ELSE W2.conns) : Strip(Step(W, StepOf(a), pick)) = W2

TraceNext ==
    /\ l < Len(Trace)
    /\ LET L == Trace[l + 1]
           fresh == L.act.k = "init"
           W2 == WOf(L)
       IN  /\ l' = l + 1
           /\ w' = W2
           /\ hist' = IF fresh THEN << >> ELSE hist \o Events(w.txs, W2.txs)
           /\ snap' = IF fresh THEN EmptyFn ELSE NextSnap(snap, w.cfg, W2.cfg)
           \* drain: every object served until a pass has no effect; wdrain (live mode): the REAL work sets, fed by the
           \* real watchers and requeues only, served until they stay empty
           /\ stable' = (L.act.k \in {"drain", "wdrain"} /\ L.act.stable)
           /\ drift' = IF fresh THEN FALSE ELSE ~Conforms(w, L.act, W2)

TraceSpec == TraceInit /\ [][TraceNext]_tvars

TraceAccepted == TLCGet("stats").diameter - 1 = Len(Trace)

\* a drain that did not come to rest (80 passes over every object) is itself a termination failure
Overrun == l > 0 /\ Trace[l].act.k \in {"drain", "wdrain"} /\ ~Trace[l].act.stable

Report ==
    LET bad == Violated(w, hist, stable, snap) \cup (IF Overrun THEN {"C20_Terminates"} ELSE {}) IN
    /\ bad = {} \/ PrintT(<<"VIOLATION", l, bad>>)
    /\ ~drift \/ PrintT(<<"DRIFT", l>>)
=============================================================================
