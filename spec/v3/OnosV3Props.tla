----------------------------- MODULE OnosV3Props -----------------------------
(***************************************************************************)
(* Property C20 over the state of OnosV3: the Order and Consistency         *)
(* invariants of the project's specification (/repo/spec/Config.tla)        *)
(* restated over the Go-level records, the clauses the statement adds       *)
(* (every phase committed before it is applied; a failed or aborted apply   *)
(* blocks later applies until rolled back) and termination at the fixed     *)
(* point.  Each clause is a predicate of (W, hist, stable) so that it is    *)
(* evaluated alike on specification states and on states recorded from the  *)
(* real code.                                                               *)
(***************************************************************************)
EXTENDS OnosV3

\* ---- Order (Config.tla, Order, first conjunct) over the history of status changes
IsOrderedChange(h, p, k) ==
    /\ h[k].phase = "Change" /\ h[k].event = p /\ h[k].status = Complete
    /\ ~\E j \in DOMAIN h : /\ j < k /\ h[j].phase = "Change" /\ h[j].event = p /\ h[j].status = Complete
                            /\ h[j].index >= h[k].index

IsOrderedRollback(h, p, k) ==
    /\ h[k].phase = "Rollback" /\ h[k].event = p /\ h[k].status = Complete
    /\ \E j \in DOMAIN h : j < k /\ h[j].phase = "Change" /\ h[j].status = Complete /\ h[j].index = h[k].index
    /\ ~\E j \in DOMAIN h :
          /\ j < k /\ h[j].phase = "Change" /\ h[j].event = p /\ h[j].status = Complete /\ h[j].index > h[k].index
          /\ ~\E m \in DOMAIN h : m > j /\ m < k /\ h[m].phase = "Rollback" /\ h[m].event = p
                                  /\ h[m].status = Complete /\ h[m].index = h[j].index

C20_Order(W, h) ==
    \A k \in DOMAIN h : h[k].status = Complete =>
        \/ IsOrderedChange(h, "Commit", k) \/ IsOrderedChange(h, "Apply", k)
        \/ IsOrderedRollback(h, "Commit", k) \/ IsOrderedRollback(h, "Apply", k)

\* ---- each phase is committed before it is applied
C20_CommitBeforeApply(W, h) ==
    /\ \A i \in DOMAIN W.txs :
          /\ W.txs[i].ca \in {InProgress, Complete, Failed, Aborted} => W.txs[i].cc = Complete
          /\ W.txs[i].ra \in {InProgress, Complete, Failed} => W.txs[i].rc = Complete
    /\ W.cfg.arev # 0 => /\ W.cfg.arev \in DOMAIN W.txs
                         /\ W.txs[W.cfg.arev].cc = Complete
    /\ \A k \in DOMAIN h : h[k].event = "Apply" /\ h[k].status \in {InProgress, Complete} =>
          \E j \in DOMAIN h : j < k /\ h[j].event = "Commit" /\ h[j].phase = h[k].phase
                              /\ h[j].index = h[k].index /\ h[j].status = Complete

\* ---- a change whose apply failed or was aborted keeps later changes from being applied until it is rolled back
\* (rolled back: the apply stage of its rollback has ended - the statement does not say what is to happen when the
\* device refuses the rollback itself; the code then lets later ordinals proceed, and that is not judged here)
C20_FailedBlocks(W, h) ==
    \A k \in DOMAIN h :
        (h[k].phase = "Change" /\ h[k].event = "Apply" /\ h[k].status \in {InProgress, Complete}) =>
            \A m \in DOMAIN h :
                (m < k /\ h[m].phase = "Change" /\ h[m].event = "Apply" /\ h[m].status \in {Failed, Aborted}
                 /\ h[m].index < h[k].index) =>
                    \E r \in DOMAIN h : r > m /\ r < k /\ h[r].phase = "Rollback" /\ h[r].index = h[m].index
                                        /\ h[r].event = "Apply" /\ h[r].status \in {Complete, Failed}

\* ---- Consistency (Config.tla) over the Go-level configuration
DevInSync(W) == /\ W.dev.up /\ W.cfg.state = "Synchronized" /\ W.cfg.aterm = W.cfg.mterm
                /\ W.cfg.master \in W.conns /\ W.dev.failq = << >>
DevHas(W, p, v) == IF v = Del THEN p \notin DOMAIN W.dev.vals ELSE p \in DOMAIN W.dev.vals /\ W.dev.vals[p] = v
Holds(vals, p, v) == p \in DOMAIN vals /\ vals[p] = v

C20_ConsistencyCommitted(W, h) ==
    /\ \A i \in DOMAIN W.txs : W.cfg.crev = i =>
          \A p \in DOMAIN W.txs[i].values : Holds(W.cfg.cvalues, p, W.txs[i].values[p])
    \* a completed rollback that is the last committed operation left the displaced values
    /\ \A i \in DOMAIN W.txs :
          (W.txs[i].rc = Complete /\ W.cfg.cindex = i /\ W.cfg.cord = W.txs[i].rord) =>
              \A p \in DOMAIN W.txs[i].rvalues : Holds(W.cfg.cvalues, p, W.txs[i].rvalues[p])
    \* a transaction marked committed really is in the configuration: its ordinal was handed out by the configuration
    /\ \A i \in DOMAIN W.txs : W.txs[i].cc = Complete => W.txs[i].cord <= W.cfg.cord /\ W.cfg.cchange >= i
    /\ \A i \in DOMAIN W.txs : W.txs[i].rc = Complete => W.txs[i].rord <= W.cfg.cord

C20_ConsistencyApplied(W, h) ==
    /\ \A i \in DOMAIN W.txs : W.cfg.arev = i =>
          \A p \in DOMAIN W.txs[i].values :
              /\ Holds(W.cfg.avalues, p, W.txs[i].values[p])
    /\ \A i \in DOMAIN W.txs :
          \* (a change whose apply was aborted never reached the applied configuration: its rollback displaces nothing there)
          (W.txs[i].ra = Complete /\ W.txs[i].ca # Aborted /\ W.cfg.aindex = i /\ W.cfg.aord = W.txs[i].rord) =>
              \A p \in DOMAIN W.txs[i].rvalues : Holds(W.cfg.avalues, p, W.txs[i].rvalues[p])
    /\ \A i \in DOMAIN W.txs : W.txs[i].ca = Complete => W.txs[i].cord <= W.cfg.aord
    /\ \A i \in DOMAIN W.txs : W.txs[i].ra = Complete => W.txs[i].rord <= W.cfg.aord
    /\ W.cfg.aord <= W.cfg.cord

\* the device holds the applied configuration whenever it is connected and reported synchronized in the current term
\* and no apply is in its window between the device's answer and its recording
\* ... and no apply failed without having been rolled back on the device: "the change may or may not have been applied
\* to the target ... it must be rolled back completely through the apply phase" (Transaction.tla)
NoApplyWindow(W) == \A i \in DOMAIN W.txs : /\ W.txs[i].ca # InProgress /\ W.txs[i].ra # InProgress
                                             /\ ~(W.txs[i].ca = Failed /\ W.txs[i].ra # Complete)
C20_ConsistencyDevice(W, h) ==
    (DevInSync(W) /\ NoApplyWindow(W)) =>
        /\ \A p \in DOMAIN W.cfg.avalues : DevHas(W, p, W.cfg.avalues[p])
        \* ... and nothing else: no value reaches the target without going through an apply stage
        /\ \A p \in DOMAIN W.dev.vals : Holds(W.cfg.avalues, p, W.dev.vals[p])

\* ---- termination, stated where the controllers are at their fixed point
ChangeDone(t) == t.cc \in {Complete, Failed} /\ t.ca \in {Complete, Aborted, Failed, Canceled}
RollbackDone(t) == t.rc \in {Complete, Failed} /\ t.ra \in {Complete, Aborted, Failed}
Done(t) == IF t.phase = "Change" THEN ChangeDone(t) ELSE RollbackDone(t)

EnvGood(W) == W.dev.up /\ W.conns # {} /\ W.dev.failq = << >>

\* a rollback that was requested for a change that is not the latest committed one waits for the client to roll the
\* later ones back (the design's reverse-order rule): the system is then legitimately waiting for the client
ClientOwes(W) == \E i \in DOMAIN W.txs : W.txs[i].phase = "Rollback" /\ W.txs[i].rc = Pending
                     /\ \E j \in DOMAIN W.txs : j > i /\ W.txs[j].phase = "Change" /\ W.txs[j].cc = Complete

\* ---- live views: what a reader of a value map sees.  A tombstone hides itself and everything beneath it at path element
\* boundaries.  The path universe of the behaviours is small and fixed, so "beneath" is a literal relation.
Under == { <<"/a", "/a/b">>, <<"/a", "/a/c">> }     \* <<p, q>>: q lies beneath p   ("/ab" does NOT lie beneath "/a")
Live(vals) == LET hidden(q) == vals[q] = Del \/ \E p \in DOMAIN vals : vals[p] = Del /\ <<p, q>> \in Under
              IN  [q \in {x \in DOMAIN vals : ~hidden(x)} |-> vals[q]]
\* what the device holds, as a value map restricted to leaves (the device has no tombstones)
DevLive(W) == W.dev.vals

\* ---- rolling a change back restores exactly the committed configuration that was readable before it was committed
\* snap[i]: the live committed configuration in the state before change i's commit completed (kept by the exploration /
\* derived by TLC from the recorded real states)
C20_RollbackRestores(W, h, snap) ==
    \A i \in DOMAIN W.txs :
        (i \in DOMAIN snap /\ W.txs[i].rc = Complete /\ W.cfg.cindex = i /\ W.cfg.cord = W.txs[i].rord) =>
            Live(W.cfg.cvalues) = snap[i]

\* ---- at rest, with every change applied or rolled back, target connected and synchronized: what is readable in the
\* committed configuration is what is recorded as applied and what the device holds
Settled(W) == /\ \A i \in DOMAIN W.txs : Done(W.txs[i])
              /\ \A i \in DOMAIN W.txs : W.txs[i].cc = Complete =>
                    \/ W.txs[i].ca = Complete /\ W.txs[i].ra \in {Nil, Complete}
                    \/ W.txs[i].ra = Complete
C20_AppliedIsCommitted(W, h, stable) ==
    (stable /\ EnvGood(W) /\ DevInSync(W) /\ Settled(W)) =>
        /\ Live(W.cfg.avalues) = Live(W.cfg.cvalues)
        /\ DevLive(W) = Live(W.cfg.cvalues)

C20_Terminates(W, h, stable) ==
    (stable /\ EnvGood(W) /\ ~ClientOwes(W)) => \A i \in DOMAIN W.txs : Done(W.txs[i])

C20_SyncCompletes(W, h, stable) ==
    (stable /\ EnvGood(W)) => DevInSync(W)

\* the snapshots after a step in which the configuration goes from C to C2: a change is committed exactly when the committed
\* revision moves up to its index (the transaction record may follow in a later step, after a process death)
NextSnap(snap, C, C2) ==
    IF C2.crev > C.crev
    THEN [i \in DOMAIN snap \cup {C2.crev} |-> IF i = C2.crev THEN Live(C.cvalues) ELSE snap[i]]
    ELSE snap

Clauses == {"C20_RollbackRestores", "C20_AppliedIsCommitted", "C20_Order", "C20_CommitBeforeApply", "C20_FailedBlocks", "C20_ConsistencyCommitted",
            "C20_ConsistencyApplied", "C20_ConsistencyDevice", "C20_Terminates", "C20_SyncCompletes"}

Violated(W, h, stable, snap) ==
    {c \in Clauses :
        CASE c = "C20_Order" -> ~C20_Order(W, h)
          [] c = "C20_RollbackRestores" -> ~C20_RollbackRestores(W, h, snap)
          [] c = "C20_AppliedIsCommitted" -> ~C20_AppliedIsCommitted(W, h, stable)
          [] c = "C20_CommitBeforeApply" -> ~C20_CommitBeforeApply(W, h)
          [] c = "C20_FailedBlocks" -> ~C20_FailedBlocks(W, h)
          [] c = "C20_ConsistencyCommitted" -> ~C20_ConsistencyCommitted(W, h)
          [] c = "C20_ConsistencyApplied" -> ~C20_ConsistencyApplied(W, h)
          [] c = "C20_ConsistencyDevice" -> ~C20_ConsistencyDevice(W, h)
          [] c = "C20_Terminates" -> ~C20_Terminates(W, h, stable)
          [] c = "C20_SyncCompletes" -> ~C20_SyncCompletes(W, h, stable)}
=============================================================================
