CONSTANTS
 Changes <- S_Changes
 FailCodes <- S_FailCodes
 SwallowConflicts = FALSE
 NoPlugin = FALSE
 MaxTx = 3
 MaxRb = 2
 MaxCut = 1
 MaxMid = 1
 MaxConn = 0
 MaxDevStop = 0
 MaxFail = 0
 MaxSteps = 45
 LiveMC = FALSE
 MaxNoop = 4
 OutOfOrderRb = FALSE
INIT MCInit
NEXT MCNext
CHECK_DEADLOCK FALSE
INVARIANT Export
