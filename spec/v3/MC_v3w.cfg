CONSTANTS
 Changes <- S_Changes
 FailCodes <- S_FailCodes
 SwallowConflicts = FALSE
 NoPlugin = FALSE
 MaxTx = 2
 MaxRb = 1
 MaxCut = 1
 MaxMid = 0
 MaxConn = 1
 MaxDevStop = 0
 MaxFail = 0
 MaxSteps = 80
 LiveMC = TRUE
 MaxNoop = 0
 OutOfOrderRb = FALSE
INIT MCInit
NEXT MCNext
CHECK_DEADLOCK FALSE
VIEW View
INVARIANTS Inv_WakeupsSuffice Inv_Order Inv_CommitBeforeApply Inv_FailedBlocks Inv_ConsistencyCommitted Inv_ConsistencyApplied Inv_ConsistencyDevice Inv_Terminates Inv_SyncCompletes Inv_RollbackRestores Inv_AppliedIsCommitted
