CONSTANTS
 Changes <- S_Changes
 FailCodes <- S_FailCodes
 SwallowConflicts = FALSE
 NoPlugin = FALSE
 MaxTx = 3
 MaxRb = 2
 MaxCut = 1
 MaxMid = 1
 MaxConn = 2
 MaxDevStop = 1
 MaxFail = 1
 MaxSteps = 55
 LiveMC = FALSE
 MaxNoop = 4
 OutOfOrderRb = FALSE
INIT MCInit
NEXT MCNext
CHECK_DEADLOCK FALSE
INVARIANT Export
