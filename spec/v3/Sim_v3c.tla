---- MODULE Sim_v3c ----
EXTENDS OnosV3MC
Ch(p, v) == (p :> v)
Ch2(p, v, q, u) == (p :> v @@ q :> u)
S_Changes == {Ch("/a/b", "v1"), Ch("/a/b", "v2"), Ch("/a/c", "v1"), Ch("/a/b", "REJECT-3")}
S_FailCodes == {14}
====
