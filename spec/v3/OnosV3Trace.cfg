CONSTANTS
 SwallowConflicts = FALSE
 NoPlugin = FALSE
SPECIFICATION TraceSpec
CHECK_DEADLOCK FALSE
POSTCONDITION TraceAccepted
INVARIANT Report
