---- MODULE MC_v3q ----
EXTENDS OnosV3MC
Ch(p, v) == (p :> v)
Ch2(p, v, q, u) == (p :> v @@ q :> u)
S_Changes == {Ch("/a/b", "v1"), Ch("/a/b", "v2")}
S_FailCodes == {14}
====
