---- MODULE MC_v3t ----
EXTENDS OnosV3MC
Ch(p, v) == (p :> v)
Ch2(p, v, q, u) == (p :> v @@ q :> u)
S_Changes == {Ch("/a/b", "v1"), Ch("/a/b", "REJECT-3"), Ch("/a/c", "INVALID")}
S_FailCodes == {14}
====
