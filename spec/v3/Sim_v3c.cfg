CONSTANTS
 Changes <- S_Changes
 FailCodes <- S_FailCodes
 SwallowConflicts = FALSE
 NoPlugin = FALSE
 MaxTx = 4
 MaxRb = 3
 MaxCut = 2
 MaxMid = 2
 MaxConn = 1
 MaxDevStop = 0
 MaxFail = 0
 MaxSteps = 60
 LiveMC = FALSE
 MaxNoop = 4
 OutOfOrderRb = TRUE
INIT MCInit
NEXT MCNext
CHECK_DEADLOCK FALSE
INVARIANT Export
