------------------------------- MODULE OnosV3 -------------------------------
(***************************************************************************)
(* The v3 (per-target) transaction protocol of onos-config AS THE GO CODE  *)
(* IMPLEMENTS IT: pkg/controller/v3/{transaction,configuration,mastership} *)
(* over pkg/store/v3.  One target, one onos-config node.                    *)
(*                                                                         *)
(* A reconcile reads the transaction and the configuration, decides, and    *)
(* performs up to three persisted effects in a fixed order (version-checked *)
(* writes of the two records, a gNMI Set to the device).  The steps of this *)
(* specification are whole reconciles, optionally                           *)
(*   - CUT: the process dies just before the reconcile's cut-th effect      *)
(*     ("every partial write between the transaction and configuration      *)
(*     records"), and                                                       *)
(*   - MID: another step (a write of the mastership or configuration        *)
(*     controller, a client request, a connection loss) takes place just    *)
(*     before the at-th effect, i.e. between this reconcile's reads and its *)
(*     write: the write then meets a record that is no longer the one read  *)
(*     (a write conflict).                                                  *)
(* The semantics is written as functions on a world record W so that the    *)
(* same operators serve model checking, the export of schedules and the     *)
(* validation of traces recorded from the real code (OnosV3Trace).          *)
(*                                                                         *)
(* The project's own specification (/repo/spec/Transaction.tla) is the      *)
(* design this code follows; its Order and Consistency invariants are       *)
(* restated over this module's state in OnosV3Props.                        *)
(***************************************************************************)
EXTENDS Integers, Sequences, FiniteSets, TLC

CONSTANTS SwallowConflicts,  \* TRUE: a write conflict is logged and the reconcile carries on with its next write
                             \*       (the code before the repair); FALSE: the reconcile ends with an error and is retried
          NoPlugin           \* TRUE: no model plugin for the target's type/version

Nil == "Nil"
Pending == "Pending"
InProgress == "InProgress"
Complete == "Complete"
Aborted == "Aborted"
Canceled == "Canceled"
Failed == "Failed"
Open == {Pending, InProgress, Nil}
Del == "<del>"          \* tombstone
Invalid == "INVALID"    \* the plugin rejects a document containing this value
Reject == "REJECT-3"    \* the device refuses a Set carrying this value (InvalidArgument)
Transient == {14, 1, 4} \* Unavailable, Canceled, DeadlineExceeded
Denied == 7

EmptyFn == [x \in {} |-> Nil]

NewTx(ch) == [phase |-> "Change", values |-> ch, cc |-> Pending, ca |-> Pending, cord |-> 0,
              rc |-> Nil, ra |-> Nil, rord |-> 0, rindex |-> 0, rvalues |-> EmptyFn]

InitCfg == [state |-> "Unknown", master |-> "", mterm |-> 0, aterm |-> 0,
            cindex |-> 0, cchange |-> 0, ctarget |-> 0, cord |-> 0, crev |-> 0, cvalues |-> EmptyFn,
            aindex |-> 0, atarget |-> 0, aord |-> 0, arev |-> 0, avalues |-> EmptyFn]

InitDev == [up |-> TRUE, vals |-> EmptyFn, boot |-> 0, maxeid |-> 0, failq |-> << >>]

\* q: the work sets of the three controllers (what their watchers and requeues have made pending).  A freshly started
\* process finds the configuration record and the target entity replayed: the configuration and mastership controllers
\* are pending.
NoQ == [tx |-> {}, cfg |-> FALSE, mast |-> FALSE]
InitQ == [tx |-> {}, cfg |-> TRUE, mast |-> TRUE]
InitW == [txs |-> << >>, cfg |-> InitCfg, conns |-> {}, nconn |-> 0, dev |-> InitDev, q |-> InitQ]
Strip(W) == [W EXCEPT !.q = NoQ]

-----------------------------------------------------------------------------
(* effects *)
CfgW(f) == [k |-> "cfg", f |-> f]
TxW(f) == [k |-> "tx", f |-> f]
Rq(j) == [k |-> "rq", i |-> j]     \* Result{Requeue: j}: not a persisted effect, reached only if the reconcile returns normally
DevE(vals, eid, conn, ok, bad) == [k |-> "dev", vals |-> vals, eid |-> eid, conn |-> conn, ok |-> ok, bad |-> bad]

HasTx(W, j) == j \in 1..Len(W.txs)
Min(a, b) == IF a < b THEN a ELSE b

\* the values a change displaces (Status.Rollback.Values)
RBVals(ch, cvals) == [p \in DOMAIN ch |-> IF p \in DOMAIN cvals THEN cvals[p] ELSE Del]

\* applyValues: the guards before the gNMI Set
ApplyVals(W, C, vals, ok, bad) ==
    IF C.state = "Synchronizing" \/ C.aterm < C.mterm \/ C.master = "" \/ C.master \notin W.conns
    THEN << >>
    ELSE << DevE(vals, C.aterm, C.master, ok, bad) >>

\* no commit stage is in flight: the last operation was a change that is processed (target = index) or a rollback
\* that is complete (target = revision)
CommitIdle(C) == C.ctarget = C.cindex \/ C.ctarget = C.crev

\* ... and the record of the transaction it concerned says so too (the two records are written one after the other)
PrevCommitOpen(W, C) ==
    /\ HasTx(W, C.cindex)
    /\ IF C.ctarget = C.cindex THEN W.txs[C.cindex].cc \in {Pending, InProgress}
                                ELSE W.txs[C.cindex].rc # Complete

CommitChange(W, i) ==
    LET T == W.txs[i]
        C == W.cfg
    IN  CASE T.cc = Pending ->
               IF C.cchange # i - 1 THEN << >>
               ELSE LET rb == [cc |-> InProgress, rindex |-> C.crev, rvalues |-> RBVals(T.values, C.cvalues)]
                    IN  IF C.ctarget # i
                        THEN IF ~CommitIdle(C) \/ PrevCommitOpen(W, C) THEN << >>
                             ELSE << CfgW([ctarget |-> i]), TxW(rb) >>
                        ELSE << TxW(rb) >>
          [] T.cc = InProgress ->
               IF C.cchange = i THEN << TxW([cc |-> Complete, cord |-> C.cord]), Rq(i + 1) >>
               ELSE LET cand == T.values @@ C.cvalues
                        valid == ~NoPlugin /\ \A p \in DOMAIN cand : cand[p] # Invalid
                    IN  IF ~valid
                        THEN << TxW([cc |-> Failed, ca |-> Canceled]), CfgW([cindex |-> i, cchange |-> i]), Rq(i + 1) >>
                        ELSE << CfgW([cindex |-> i, cchange |-> i, crev |-> i, cord |-> C.cord + 1, cvalues |-> cand]),
                                TxW([cc |-> Complete, cord |-> C.cord + 1]), Rq(i + 1) >>
          [] T.cc = Failed ->
               IF C.cchange < i THEN << CfgW([cindex |-> i, cchange |-> i]), Rq(i + 1) >> ELSE << >>
          [] OTHER -> << >>

PrevApplyOpen(W, C) ==
    /\ HasTx(W, C.aindex)
    /\ \/ C.atarget = C.aindex /\ W.txs[C.aindex].ca \in {Pending, InProgress}
       \/ C.atarget < C.aindex /\ W.txs[C.aindex].ra \in Open

ApplyChange(W, i) ==
    LET T == W.txs[i]
        C == W.cfg
        bump == [atarget |-> i, aindex |-> i, aord |-> T.cord]
    IN  CASE T.ca = Pending ->
               IF C.aord # T.cord - 1 THEN << >>
               ELSE IF C.atarget = i THEN << TxW([ca |-> InProgress]) >>
               ELSE IF PrevApplyOpen(W, C) THEN << >>
               ELSE IF C.arev < T.rindex THEN << TxW([ca |-> Aborted]), CfgW(bump), Rq(i + 1) >>
               ELSE << CfgW([atarget |-> i]), TxW([ca |-> InProgress]) >>
          [] T.ca = InProgress ->
               IF C.aord = T.cord /\ C.arev = i THEN << TxW([ca |-> Complete]), Rq(i + 1) >>
               ELSE ApplyVals(W, C, T.values,
                              << CfgW([aindex |-> i, aord |-> T.cord, arev |-> i, avalues |-> T.values @@ C.avalues]),
                                 TxW([ca |-> Complete]), Rq(i + 1) >>,
                              << TxW([ca |-> Failed]), CfgW([aindex |-> i, aord |-> T.cord]), Rq(i + 1) >>)
          [] T.ca \in {Aborted, Failed} ->
               IF C.aord < T.cord THEN << CfgW(bump), Rq(i + 1) >> ELSE << >>
          [] OTHER -> << >>

CommitRollback(W, i) ==
    LET T == W.txs[i]
        C == W.cfg
    IN  CASE T.rc = Pending ->
               IF C.crev # i THEN << >>
               ELSE IF C.ctarget # T.rindex
               THEN IF ~CommitIdle(C) \/ PrevCommitOpen(W, C) THEN << >>
                    ELSE << CfgW([ctarget |-> T.rindex]), TxW([rc |-> InProgress]) >>
               ELSE << TxW([rc |-> InProgress]) >>
          [] T.rc = InProgress ->
               IF C.crev = i
               THEN << CfgW([cvalues |-> T.rvalues @@ C.cvalues, cindex |-> i, cord |-> C.cord + 1, crev |-> T.rindex]),
                       TxW([rord |-> C.cord + 1, rc |-> Complete]), Rq(C.cchange + 1) >>
               ELSE << TxW([rord |-> C.cord, rc |-> Complete]), Rq(C.cchange + 1) >>
          [] OTHER -> << >>

ApplyRollback(W, i) ==
    LET T == W.txs[i]
        C == W.cfg
        bump == [atarget |-> i, aindex |-> i, aord |-> T.cord]
        rest == IF C.aord # T.rord - 1 THEN << >>
                ELSE IF C.atarget = T.rindex THEN << TxW([ra |-> InProgress]) >>
                ELSE IF HasTx(W, C.aindex) /\ ( \/ C.aindex = i /\ W.txs[C.aindex].ca \in {Pending, InProgress}
                                                \/ C.aindex > i /\ W.txs[C.aindex].ra \in Open ) THEN << >>
                \* the applied index names the transaction whose rollback is being applied from here on (the applied target is
                \* the revision it restores): that is the transaction a configuration event has to wake
                ELSE << CfgW([atarget |-> T.rindex, aindex |-> i]), TxW([ra |-> InProgress]) >>
    IN  CASE T.ra = Pending ->
               CASE T.ca = Pending ->
                      IF C.aord = T.cord - 1 /\ ~PrevApplyOpen(W, C)
                      THEN << TxW([ca |-> Aborted]), CfgW(bump), Rq(i + 1) >> ELSE << >>
                 [] T.ca = InProgress ->
                      IF C.aord # T.cord THEN << TxW([ca |-> Failed]), CfgW(bump), Rq(i + 1) >> ELSE << TxW([ca |-> Complete]), Rq(i + 1) >>
                 [] T.ca \in {Aborted, Failed} ->
                      IF C.aord < T.cord THEN << CfgW(bump), Rq(i + 1) >> ELSE rest
                 [] OTHER -> rest
          [] T.ra = InProgress ->
               IF C.aord = T.rord /\ C.arev = T.rindex THEN << TxW([ra |-> Complete]), Rq(i + 1) >>
               \* a change that never reached the target (its apply was aborted) displaced nothing there
               ELSE IF T.ca = Aborted THEN << CfgW([aindex |-> i, aord |-> T.rord]), TxW([ra |-> Complete]), Rq(i + 1) >>
               ELSE ApplyVals(W, C, T.rvalues,
                              << CfgW([aindex |-> i, aord |-> T.rord, arev |-> Min(C.arev, T.rindex), avalues |-> T.rvalues @@ C.avalues]),
                                 TxW([ra |-> Complete]), Rq(i + 1) >>,
                              << CfgW([aindex |-> i, aord |-> T.rord]), TxW([ra |-> Failed]), Rq(i + 1) >>)
          [] OTHER -> << >>

PlanTx(W, i) ==
    IF ~HasTx(W, i) THEN << >>
    ELSE LET T == W.txs[i]
         IN  IF T.phase = "Change"
             THEN (IF T.cc # Complete THEN CommitChange(W, i) ELSE ApplyChange(W, i))
             ELSE (IF T.rc # Complete THEN CommitRollback(W, i) ELSE ApplyRollback(W, i))

PlanCfg(W) ==
    LET C == W.cfg
    IN  IF C.state # "Synchronizing"
        THEN (IF C.mterm > C.aterm THEN << CfgW([state |-> "Synchronizing"]) >> ELSE << >>)
        ELSE IF C.master = "" THEN << >>
        ELSE IF C.aindex = 0 THEN << CfgW([state |-> "Synchronized", aterm |-> C.mterm]) >>
        ELSE IF C.master \notin W.conns THEN << >>
        ELSE LET done == << CfgW([aterm |-> C.mterm, state |-> "Synchronized"]) >>
             IN  IF DOMAIN C.avalues = {} THEN done
                 ELSE << DevE(C.avalues, C.mterm, C.master, done, << >>) >>

PlanMast(W, pick) ==
    LET C == W.cfg
    IN  IF C.master \in W.conns THEN << >>
        ELSE IF W.conns = {} THEN (IF C.master = "" THEN << >> ELSE << CfgW([master |-> ""]) >>)
        ELSE << CfgW([mterm |-> C.mterm + 1, master |-> pick]) >>

-----------------------------------------------------------------------------
(* wake-ups: which objects an event of a record makes pending (watchers.go of the three v3 controllers) *)
\* a configuration event names: the commit / apply targets, the last applied and the last committed transaction, the
\* revision that can be rolled back next and the next change waiting to be committed
WakeCfg(q, c2) == [tx |-> q.tx \cup ({c2.ctarget, c2.atarget, c2.aindex, c2.cindex, c2.crev, c2.cchange + 1} \ {0}), cfg |-> TRUE, mast |-> TRUE]
WakeTx(q, i) == [q EXCEPT !.tx = @ \cup {i}]
WakeAll(W) == [tx |-> 1..Len(W.txs), cfg |-> TRUE, mast |-> TRUE]   \* a restarted process: every watcher replays every record

-----------------------------------------------------------------------------
(* the device *)
Max(a, b) == IF a > b THEN a ELSE b

DevSet(W, e) ==
    LET d == W.dev
    IN  IF e.conn \notin W.conns \/ ~d.up THEN [W |-> W, code |-> 14]
        ELSE IF d.failq # << >> THEN [W |-> [W EXCEPT !.dev.failq = Tail(d.failq)], code |-> Head(d.failq)]
        ELSE IF e.eid < d.maxeid THEN [W |-> W, code |-> Denied]
        ELSE IF \E p \in DOMAIN e.vals : e.vals[p] = Reject THEN [W |-> W, code |-> 3]
        ELSE LET keep == {p \in DOMAIN d.vals : ~(p \in DOMAIN e.vals /\ e.vals[p] = Del)}
                 upd == {p \in DOMAIN e.vals : e.vals[p] # Del}
                 nv == [p \in keep \cup upd |-> IF p \in upd THEN e.vals[p] ELSE d.vals[p]]
             IN  [W |-> [W EXCEPT !.dev.vals = nv, !.dev.maxeid = Max(d.maxeid, e.eid)], code |-> 0]

-----------------------------------------------------------------------------
(* steps that are not reconciles *)
LatestCommitted(W, i) ==   \* i is the change the committed configuration currently reflects
    HasTx(W, i) /\ W.txs[i].phase = "Change" /\ W.txs[i].cc = Complete

Simple(W, st) ==
    CASE st.k = "append" -> [W EXCEPT !.txs = Append(W.txs, NewTx(st.ch)), !.q = WakeTx(W.q, Len(W.txs) + 1)]
      [] st.k = "rollback" ->
           IF LatestCommitted(W, st.i)
           THEN [W EXCEPT !.txs[st.i].phase = "Rollback", !.txs[st.i].rc = Pending, !.txs[st.i].ra = Pending, !.q = WakeTx(W.q, st.i)]
           ELSE W
      \* connections come and go with their CONTROLS relations: the mastership controller's topology watcher maps those
      [] st.k = "connect" ->
           IF W.dev.up THEN [W EXCEPT !.nconn = W.nconn + 1, !.conns = W.conns \cup {"c" \o ToString(W.nconn + 1)}, !.q.mast = TRUE]
           ELSE [W EXCEPT !.nconn = W.nconn + 1]
      [] st.k = "disconnect" -> [W EXCEPT !.conns = {}, !.q.mast = (W.q.mast \/ W.conns # {})]
      [] st.k = "devstop" -> [W EXCEPT !.conns = {}, !.q.mast = (W.q.mast \/ W.conns # {}),
                                       !.dev = [up |-> FALSE, vals |-> EmptyFn, boot |-> W.dev.boot + 1, maxeid |-> 0, failq |-> W.dev.failq]]
      [] st.k = "devstart" -> [W EXCEPT !.dev.up = TRUE]
      [] st.k = "devfail" -> [W EXCEPT !.dev.failq = W.dev.failq \o [n \in 1..st.cnt |-> st.code]]
      [] OTHER -> W

-----------------------------------------------------------------------------
(* running a reconcile: effects in order, conflicts, death, interleaved steps *)
\* the work-set update that makes the reconciled object pending again
SelfUpd(st, q) == CASE st.k = "rtx" -> WakeTx(q, st.i)
                    [] st.k = "rcfg" -> [q EXCEPT !.cfg = TRUE]
                    [] st.k = "rmast" -> [q EXCEPT !.mast = TRUE]
                    [] OTHER -> q
Dequeue(st, q) == CASE st.k = "rtx" -> [q EXCEPT !.tx = @ \ {st.i}]
                    [] st.k = "rcfg" -> [q EXCEPT !.cfg = FALSE]
                    [] st.k = "rmast" -> [q EXCEPT !.mast = FALSE]
                    [] OTHER -> q

XOf(st) == [i |-> IF "i" \in DOMAIN st THEN st.i ELSE 0,
            cut |-> IF "cut" \in DOMAIN st THEN st.cut ELSE 0,
            at |-> IF "at" \in DOMAIN st THEN st.at ELSE 0,
            mid |-> IF "mid" \in DOMAIN st THEN st.mid ELSE << >>,
            k |-> st.k, pick |-> "c1"]

RECURSIVE Run(_, _, _, _, _, _), Mids(_, _, _), Step(_, _, _)

\* seenC / seenT: the records as this reconcile believes them to be (as read, then as written by itself);
\* a write succeeds iff the stored record still is that record (the version check).
\* a reconcile that ends with an error is retried by the controller runtime: its object is pending again
Retry(W, X) == [W EXCEPT !.q = SelfUpd(X, W.q)]

Run(W, seenC, seenT, n0, effs, X) ==
    IF effs = << >> THEN W
    ELSE LET e == Head(effs)
         IN  IF e.k = "rq" THEN [W EXCEPT !.q = WakeTx(W.q, e.i)]
             ELSE
             LET n == n0 + 1
             IN  IF X.cut = n THEN [W EXCEPT !.q = WakeAll(W)]
                 ELSE LET W1 == IF X.at = n THEN Mids(W, X.mid, X.pick) ELSE W
                      IN  CASE e.k = "cfg" ->
                                 IF W1.cfg = seenC
                                 THEN LET c2 == e.f @@ W1.cfg IN Run([W1 EXCEPT !.cfg = c2, !.q = WakeCfg(W1.q, c2)], c2, seenT, n, Tail(effs), X)
                                 ELSE \* conflict.  The store has written the applied value map before the version-checked entry
                                      LET torn == IF "avalues" \in DOMAIN e.f THEN [W1 EXCEPT !.cfg.avalues = e.f.avalues] ELSE W1
                                      IN  IF SwallowConflicts THEN Run(torn, seenC, seenT, n, Tail(effs), X) ELSE Retry(torn, X)
                            [] e.k = "tx" ->
                                 IF W1.txs[X.i] = seenT
                                 THEN LET t2 == e.f @@ W1.txs[X.i] IN Run([W1 EXCEPT !.txs[X.i] = t2, !.q = WakeTx(W1.q, X.i)], seenC, t2, n, Tail(effs), X)
                                 ELSE IF SwallowConflicts THEN Run(W1, seenC, seenT, n, Tail(effs), X) ELSE Retry(W1, X)
                            [] e.k = "dev" ->
                                 LET r == DevSet(W1, e)
                                 IN  IF r.code = 0 THEN Run(r.W, seenC, seenT, n, e.ok, X)
                                     ELSE IF r.code \in Transient THEN Retry(r.W, X)
                                     ELSE IF r.code = Denied THEN r.W
                                     ELSE Run(r.W, seenC, seenT, n, e.bad, X)

\* the election an interleaved mastership reconcile makes is the code's own random choice too: X.pick
Mids(W, ms, pick) == IF ms = << >> THEN W ELSE Mids(Step(W, Head(ms), pick), Tail(ms), pick)

\* one step of a behaviour; pick: the relation the mastership election picks (its own random choice)
Step(W, st, pick) ==
    LET W0 == [W EXCEPT !.q = Dequeue(st, W.q)]
        X == [XOf(st) EXCEPT !.pick = pick]
    IN  CASE st.k = "rtx" -> IF HasTx(W, st.i) THEN Run(W0, W.cfg, W.txs[st.i], 0, PlanTx(W, st.i), X) ELSE W0
          [] st.k = "rcfg" -> Run(W0, W.cfg, Nil, 0, PlanCfg(W), X)
          [] st.k = "rmast" -> Run(W0, W.cfg, Nil, 0, PlanMast(W, IF pick \in W.conns THEN pick ELSE CHOOSE c \in W.conns : TRUE), X)
          [] OTHER -> Simple(W, st)

\* number of effects a reconcile would attempt when nothing interferes (bounds for cut / at)
RECURSIVE Len0(_)
Len0(effs) == IF effs = << >> THEN 0
              ELSE IF Head(effs).k = "dev" THEN 1 + Max(Len0(Head(effs).ok), Len0(Head(effs).bad))
              ELSE 1 + Len0(Tail(effs))

PlanOf(W, st) == CASE st.k = "rtx" -> PlanTx(W, st.i)
                   [] st.k = "rcfg" -> PlanCfg(W)
                   [] st.k = "rmast" -> PlanMast(W, "c1")
                   [] OTHER -> << >>

-----------------------------------------------------------------------------
(* the history of status changes (what Order is stated over): derived from two successive logs *)
NilTx == [phase |-> "Change", values |-> EmptyFn, cc |-> Nil, ca |-> Nil, cord |-> 0, rc |-> Nil, ra |-> Nil, rord |-> 0, rindex |-> 0, rvalues |-> EmptyFn]

Ev(ph, ev, i, old, new) == IF old # new /\ new # Nil THEN << [phase |-> ph, event |-> ev, index |-> i, status |-> new] >> ELSE << >>

TxEvents(a, b, i) == Ev("Change", "Commit", i, a.cc, b.cc) \o Ev("Change", "Apply", i, a.ca, b.ca)
                     \o Ev("Rollback", "Commit", i, a.rc, b.rc) \o Ev("Rollback", "Apply", i, a.ra, b.ra)

RECURSIVE EventsFrom(_, _, _)
EventsFrom(old, new, i) ==
    IF i > Len(new) THEN << >>
    ELSE TxEvents(IF i <= Len(old) THEN old[i] ELSE NilTx, new[i], i) \o EventsFrom(old, new, i + 1)

Events(old, new) == EventsFrom(old, new, 1)

-----------------------------------------------------------------------------
(* fixed point: no reconcile would have an effect *)
Effective(W, st) == \E pick \in (IF W.conns = {} THEN {"c1"} ELSE W.conns) : Strip(Step(W, st, pick)) # Strip(W)

StableW(W) == /\ ~Effective(W, [k |-> "rmast"])
              /\ ~Effective(W, [k |-> "rcfg"])
              /\ \A i \in 1..Len(W.txs) : ~Effective(W, [k |-> "rtx", i |-> i])

\* nothing is pending in the controllers' work sets (ids beyond the log find nothing)
QEmpty(W) == (W.q.tx \cap (1..Len(W.txs))) = {} /\ ~W.q.cfg /\ ~W.q.mast
=============================================================================
