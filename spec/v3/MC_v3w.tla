---- MODULE MC_v3w ----
EXTENDS OnosV3MC
Ch(p, v) == (p :> v)
S_Changes == {Ch("/a/b", "v1"), Ch("/a/b", "REJECT-3"), Ch("/a/c", "INVALID")}
S_FailCodes == {14}
====
