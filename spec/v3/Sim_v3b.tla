---- MODULE Sim_v3b ----
EXTENDS OnosV3MC
Ch(p, v) == (p :> v)
Ch2(p, v, q, u) == (p :> v @@ q :> u)
S_Changes == {Ch("/a/b", "v1"), Ch("/a/c", "INVALID"), Ch("/a/b", "REJECT-3"), Ch("/a/c", "v2"), Ch("/a/b", "<del>")}
S_FailCodes == {14}
====
