"""Northbound request engine (C13, C14, C19; C12 shares its no-panic clause).

  1. TLC enumerates the finite case space of the property from spec/nb/NbCases (exhaustive: one initial
     state per case).
  2. harness/cmd/nbrun sends every case (quick: a seeded sample for the large C13 space) to the REAL
     handlers (gNMI Set with crafted prefix / paths / extensions / identity metadata, Get of all targets,
     Subscribe on a fake stream with recording targets) and records what they answered and logged.
  3. TLC evaluates the outcome functions of spec/nb/NbModel on every real observation (NbTrace): verdict.
"""
import json, os, random, re, shutil, sys, time, hashlib
import vlib
from vlib import VERIF

SHAPES = [("get", None, None), ("set", None, None), ("sub", 6000, None), ("admin", 4000, None)]
FAMILIES = {"C12": [], "C13": [("c13", 5000, 60000)], "C14": [("c14set", None, None), ("c14list", None, None)], "C19": [("c19", None, None)]}


def log(*a):
    print(*a, file=sys.stderr, flush=True)


def enumerate_cases(specdir, fam, module="NbCases.tla", cfg=None, args=(), workers=4):
    out, rc, wall = vlib.run_tlc(specdir, module, cfg or ("Cases_%s.cfg" % fam), args=args, workers=workers, heap="6g", timeout=1800, metatag="nbc")
    bad = vlib.tlc_failed(out)
    if bad or rc != 0:
        raise vlib.Inconclusive("case enumeration %s failed (%s):\n%s" % (fam, bad, out[-2000:]))
    cases = [json.loads(json.loads(m.group(1))) for m in re.finditer(r'<<\s*"CASE",\s*(".*")\s*>>', out)]
    gen, dist = vlib.tlc_stats(out)
    return cases, gen, dist, wall


def run_cases(sc, bins, specdir, cases, tag):
    def cmd(ci, chunk):
        inp = sc.path("nb-%s-%03d.in" % (tag, ci))
        with open(inp, "w") as f:
            for c in chunk:
                f.write(json.dumps(c) + "\n")
        return [bins["nbrun"], "-in", inp, "-out", sc.path("nb-%s-%03d.out" % (tag, ci))]
    obs = []
    for ci, rc, out, err in sorted(vlib.run_chunked(cmd, cases, chunk=800, procs=12)):
        if rc != 0:
            raise vlib.Inconclusive("nbrun failed rc=%d:\n%s" % (rc, "\n".join(l for l in err.splitlines() if "WARN" not in l)[-2000:]))
        obs += [json.loads(x) for x in open(sc.path("nb-%s-%03d.out" % (tag, ci)))]
    return obs


def validate(specdir, obs, prefixes):
    batches = [obs[i:i + 4000] for i in range(0, len(obs), 4000)]

    def val(job):
        bi, ls = job
        p = os.path.join(specdir, "nbobs%03d.ndjson" % bi)
        with open(p, "w") as f:
            for L in ls:
                f.write(json.dumps(L) + "\n")
        out, rc, wall = vlib.run_tlc(specdir, "NbTrace.tla", "NbTrace.cfg", env={"TRACE": p}, workers=1, heap="3g", timeout=3600, metatag="nbv%d" % bi)
        return bi, ls, out
    viols, stricter = [], 0
    for bi, ls, out in vlib.pmap(val, list(enumerate(batches)), workers=8):
        bad = vlib.tlc_failed(out)
        if bad or "No error has been found" not in out or "Postcondition" in out:
            raise vlib.Inconclusive("nb validation batch %d did not complete (%s):\n%s" % (bi, bad, out[-2000:]))
        stricter += len(re.findall(r'<<\s*"STRICTER",\s*\d+\s*>>', out))
        for m in re.finditer(r'<<\s*"VIOLATION",\s*(\d+),\s*\{([^}]*)\}\s*>>', out, re.S):
            L = ls[int(m.group(1)) - 1]
            for c in re.findall(r'"(\w+)"', m.group(2)):
                if any(c.startswith(p) for p in prefixes):
                    viols.append((L, c))
    return viols, stricter


def check(prop, tier, replay_file=None):
    t0 = time.time()
    sd = vlib.seed()
    rnd = random.Random(sd)
    sc = vlib.Scratch(prop + "n")
    try:
        bins = vlib.build_harness(sc, cmds=("nbrun",))
        specdir = sc.mkdir("spec-nb")
        for f in os.listdir(os.path.join(VERIF, "spec", "nb")):
            shutil.copy(os.path.join(VERIF, "spec", "nb", f), specdir)
        explored, allcases = [], []
        if replay_file:
            allcases = [json.load(open(replay_file))["case"]]
        else:
            fams = [(f, nq, nt, "NbCases.tla", None, ()) for f, nq, nt in FAMILIES[prop]]
            if prop == "C12":
                # exhaustive shape cores, the C19 message sequences, and a random sample of the full shape products
                fams = [(f, nq, nt, "Shapes.tla", "Shapes_%s.cfg" % f, ()) for f, nq, nt in SHAPES]
                fams.append(("c19", 3000, None, "NbCases.tla", None, ()))
                nrand = 6000 if tier == "quick" else 150000
                fams.append(("random", None, None, "Shapes.tla", "Shapes_random.cfg", ("-simulate", "num=1", "-depth", str(nrand), "-seed", str(sd))))
            for fam, nq, nt, module, cfg, targs in fams:
                cases, gen, dist, wall = enumerate_cases(specdir, fam, module, cfg, targs, workers=1 if targs else 4)
                cases = [c for c in cases if c.get("shape", {}).get("rpc") != "none"]
                total = len(cases)
                n = nq if tier == "quick" else nt
                if n and len(cases) > n:
                    # stratified: every request of at most one operation, and a seeded sample of the longer ones
                    small = [c for c in cases if fam == "c13" and len(c.get("ops", [])) <= 1]
                    rest = [c for c in cases if not (fam == "c13" and len(c.get("ops", [])) <= 1)]
                    cases = small + rnd.sample(rest, min(n, len(rest)))
                explored.append(dict(family=fam, cases=total, run_on_real_code=len(cases), generated=gen, distinct=dist, wall_s=round(wall, 1)))
                allcases += cases
        obs = run_cases(sc, bins, specdir, allcases, prop)
        viols, stricter = validate(specdir, obs, [prop + "_"])
        known = vlib.load_known()
        import findings
        hits, real = {}, []
        for L, c in viols:
            hit = None
            for k in known:
                if k.get("property") == prop and k.get("status") == "known" and k.get("clause") in (None, c):
                    fn = getattr(findings, k.get("when", "always"), None)
                    if fn and fn(L["case"], None, 0):
                        hit = k
                        break
            if hit:
                hits.setdefault(hit["id"], [hit, 0])[1] += 1
            else:
                real.append((L, c))
        for kid, (k, n) in sorted(hits.items()):
            print("KNOWN-FINDING: property=%s %s (%d cases)" % (prop, k["what"], n))
        shown = {}
        for L, c in real:
            shown[c] = shown.get(c, 0) + 1
            if shown[c] > 3:
                continue
            rp = vlib.save_replay(prop, "nb-" + hashlib.sha1((json.dumps(L["case"], sort_keys=True) + c).encode()).hexdigest()[:10],
                                  dict(property=prop, clause=c, case=L["case"], observed={k: v for k, v in L.items() if k != "case"}))
            print("VIOLATION property=%s replay=%s clause=%s case=%s" % (prop, rp, c, json.dumps(L["case"])[:300]))
        ev = dict(property_id=prop, tier=tier, seed=sd, level="exploration" if prop == "C12" else "model_checking", wall_s=round(time.time() - t0, 1), violations=len(real),
                  coverage=dict(states=max(1, sum(e["distinct"] for e in explored)), transitions=max(1, sum(e["generated"] for e in explored)),
                                traces_validated_against_impl=len(obs), exploration=explored,
                                handler_refuses_more_than_documented=stricter,
                                outcomes=dict(accepted=sum(1 for o in obs if o["ok"]), refused=sum(1 for o in obs if not o["ok"]), panics=sum(1 for o in obs if o["panic"])),
                                evaluations=len(obs),
                                distinct_nontrivial=len({json.dumps(o["case"], sort_keys=True) for o in obs if o["answered"]}),
                                rule="cases are the elements of the TLC-enumerated case space (spec/nb), distinct by construction; non-trivial = the real handler was invoked and answered",
                                exhaustive=all(e["cases"] == e["run_on_real_code"] for e in explored) if explored else False,
                                known_findings={k: n for k, (_, n) in hits.items()},
                                samples=[o["case"] for o in obs[:3]]),
                  assumptions=["outcome functions of spec/nb/NbModel are the documented behaviour", "two known targets with the simulated model plugin; controllers do not run (admission only)"])
        vlib.write_evidence(prop, ev)
        log("%s %s nb: %d cases on real code, %d violations, %d known classes, stricter=%d, %.0fs" % (prop, tier, len(obs), len(real), len(hits), stricter, time.time() - t0))
        return vlib.EXIT_VIOLATION if real else vlib.EXIT_OK
    finally:
        sc.cleanup()
