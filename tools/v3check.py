"""Check for C20 (the v3 per-target transaction protocol).

  1. TLC, exhaustive, on spec/v3 (OnosV3 + OnosV3Props) with bounded configurations MC_v3*: every schedule of
     reconciles, every death of the process between two persisted effects, every interleaved write between a
     reconcile's read and its n-th write.  The clauses are invariants of the specification; a counterexample is
     exported as a schedule and marked must_replay.
  2. TLC -simulate exports behaviours (schedules with cuts, interleaved steps, faults) as JSON.
  3. Every behaviour (plus the committed regression behaviours regress/v3_*.json and, for each base behaviour,
     crash-point and conflict variants of its realised reconciles) is replayed on the REAL v3 code by
     harness/cmd/v3run, which records the abstract state projected from the real records after every step.
  4. TLC validates the recorded real traces against OnosV3Trace: the clauses are evaluated on every real state
     (verdict), and every recorded step is compared with the step the specification computes (drift, diagnostics).
"""
import json, os, random, re, sys, time, hashlib, shutil, zlib
import vlib
from vlib import VERIF

MC = [("MC_v3q", 300, "both"), ("MC_v3r", 600, "both"), ("MC_v3w", 600, "both"), ("MC_v3t", 2400, "thorough")]
SIMS = [("Sim_v3a", 120, 1200, 60), ("Sim_v3b", 80, 800, 60), ("Sim_v3c", 60, 600, 60)]
EPILOGUE = [{"k": "drain"}, {"k": "heal"}, {"k": "drain"}]
# live mode: the reconciles of the schedule run only if the REAL watchers have woken their object; at the end the real work
# sets are served until they stay empty (wdrain) - that state must be terminal - and only then is every object served (drain)
LIVE_EPILOGUE = [{"k": "wdrain"}, {"k": "heal"}, {"k": "wdrain"}, {"k": "drain"}]


def log(*a):
    print(*a, file=sys.stderr, flush=True)


def norm_step(st):
    st = dict(st)
    if "mid" in st:
        st["mid"] = [dict(m) for m in st["mid"]]
    return st


def normalise(steps, name, sd, pol="", live=False):
    ep = [dict(s, pol=pol) if s["k"] in ("drain", "wdrain") and pol else dict(s) for s in (LIVE_EPILOGUE if live else EPILOGUE)]
    sc = {"name": name, "seed": sd * 100003 + zlib.crc32(name.encode()) % 100000, "steps": [norm_step(s) for s in steps] + ep}
    if live:
        sc["live"] = True
    return sc


def live_variants(scenarios, origin, tier, sd):
    """The same schedules with the real watchers in charge: a pick is executed only if its object was woken."""
    rs = random.Random(sd + 17)
    bases = [s for s in scenarios if origin[s["name"]] in ("sim", "regress", "must_replay") and not s.get("live")]
    regress = [s for s in bases if origin[s["name"]] == "regress"]
    rest = [s for s in bases if origin[s["name"]] != "regress"]
    rs.shuffle(rest)
    out = []
    for i, s in enumerate(regress + rest[: (70 if tier == "quick" else 900)]):
        body = [st for st in s["steps"] if st["k"] not in ("drain", "heal", "wdrain")]
        # client requests and environment events keep their place; in every second variant the schedule's own reconciles
        # are dropped altogether and the controllers run on their wake-ups between the requests
        if i % 2 == 1:
            nb = []
            for st in body:
                if st["k"] in ("rtx", "rcfg", "rmast") and not st.get("cut") and not st.get("mid"):
                    continue
                nb.append(st)
                if st["k"] in ("append", "rollback") and rs.random() < 0.5:
                    nb.append({"k": "wdrain", "pol": rs.choice(["", "newest"])})
            body = nb
        v = normalise(body, s["name"] + "-live", sd, rs.choice(["", "newest"]), live=True)
        out.append(v)
        origin[v["name"]] = "live"
    return out


def run_mc(specdir, module, timeout):
    dump = os.path.join(specdir, module + "_cex.json")
    out, rc, wall = vlib.run_tlc(specdir, module + ".tla", module + ".cfg", args=["-dumpTrace", "json", dump],
                                 workers=12, heap="12g", timeout=timeout, metatag="mc")
    gen, dist = vlib.tlc_stats(out)
    res = dict(module=module, generated=gen, distinct=dist, wall_s=round(wall, 1), complete="Model checking completed" in out,
               violated=sorted({a or b for a, b in re.findall(r"Invariant (\w+) is violated|property (\w+) is violated", out)}),
               timed_out=(rc == -9))
    bad = vlib.tlc_failed(out)
    if bad and not res["violated"]:
        raise vlib.Inconclusive("model checking %s failed (%s):\n%s" % (module, bad, out[-3000:]))
    cex = None
    if res["violated"] and os.path.exists(dump):
        try:
            j = json.load(open(dump))
            states = j["counterexample"]["state"]
            last = states[-1]
            last = last[1] if isinstance(last, list) else last
            cex = last.get("sched", [])
        except Exception as e:  # noqa
            log("could not read counterexample dump:", e)
    return res, cex


def export_behaviours(specdir, module, num, depth, sd, outdir, timeout=900):
    os.makedirs(outdir, exist_ok=True)
    out, rc, wall = vlib.run_tlc(specdir, module + ".tla", module + ".cfg",
                                 args=["-simulate", "num=%d" % num, "-depth", str(depth + 5), "-seed", str(sd)],
                                 env={"EXPORT_DIR": outdir}, workers=1, timeout=timeout, metatag="sim")
    bad = vlib.tlc_failed(out)
    if bad or rc != 0:
        raise vlib.Inconclusive("simulation of %s failed (%s, rc=%s):\n%s" % (module, bad, rc, out[-3000:]))
    gen, _ = vlib.tlc_stats(out)
    # one behaviour per simulated trace: the longest export of each
    best = {}
    for f in os.listdir(outdir):
        m = re.match(r"b(\d+)_(\d+)\.json", f)
        if m and (m.group(1) not in best or int(m.group(2)) > best[m.group(1)][0]):
            best[m.group(1)] = (int(m.group(2)), f)
    scs = [json.load(open(os.path.join(outdir, f)))["steps"] for _, (_, f) in sorted(best.items())]
    return scs, gen, wall


def load_regress():
    out = []
    d = os.path.join(VERIF, "regress")
    for f in sorted(os.listdir(d)):
        if f.startswith("v3_") and f.endswith(".json"):
            out.append((f[:-5], json.load(open(os.path.join(d, f)))))
    return out


def replay(bins, scenarios, outdir):
    os.makedirs(outdir, exist_ok=True)

    def cmd(ci, chunk):
        inp = "%s.in%03d.ndjson" % (outdir, ci)
        with open(inp, "w") as f:
            for s in chunk:
                f.write(json.dumps(s) + "\n")
        return [bins["v3run"], "-in", inp, "-out", outdir, "-workers", "4"]
    infra = []
    for ci, rc, out, err in vlib.run_chunked(cmd, scenarios, chunk=40, procs=4):
        infra += [l for l in err.splitlines() if l.startswith("v3run: scenario")]
        if rc not in (0, 2):
            raise vlib.Inconclusive("v3run crashed rc=%d:\n%s" % (rc, err[-3000:]))
    return infra


def variants(scenarios, origin, tracedir, tier, sd):
    """Crash points and write conflicts of REALISED executions: for every reconcile of a base run that performed
    k >= 2 effects, a variant in which the process dies before effect j (2 <= j <= k), and variants in which the
    mastership controller / the configuration controller / a connection loss / the client's rollback request takes
    place just before effect j (1 <= j <= k)."""
    rs = random.Random(sd)
    out = []
    budget = 400 if tier == "quick" else 6000
    bases = [s for s in scenarios if origin[s["name"]] in ("regress", "sim", "must_replay")]
    rs.shuffle(bases)
    for s in bases:
        if s.get("live"):
            continue
        p = os.path.join(tracedir, s["name"] + ".ndjson")
        if not os.path.exists(p):
            continue
        lines = [json.loads(x) for x in open(p)]
        body = [st for st in s["steps"] if st["k"] not in ("drain", "heal")]
        # lines[1 + n] is the line of body step n while no drain has happened
        cand = []
        for n, st in enumerate(body):
            if n + 1 >= len(lines):
                break
            a = lines[n + 1]["act"]
            if a.get("k") != st["k"] or st["k"] not in ("rtx", "rcfg") or st.get("cut") or st.get("mid"):
                continue
            k = a.get("eff", 0)
            if k < 1:
                continue
            ntx = len(lines[n + 1]["txs"])
            for j in range(1, k + 1):
                if j >= 2:
                    cand.append((n, dict(st, cut=j)))
                    # ... and the impatient neighbours: right after the death the OTHER transactions are reconciled (twice,
                    # oldest or newest first) before the one that was cut short - steps the specification expects to wait
                    if st["k"] == "rtx" and ntx > 1:
                        others = [i for i in range(1, ntx + 1) if i != st["i"]]
                        for order in (others, others[::-1]):
                            cand.append((n, [dict(st, cut=j)] + [{"k": "rtx", "i": i} for i in order for _ in (0, 1)]))
                mids = [[{"k": "rmast"}], [{"k": "rcfg"}], [{"k": "disconnect"}], [{"k": "disconnect"}, {"k": "connect"}, {"k": "rmast"}]]
                if st["k"] == "rtx":
                    mids += [[{"k": "rollback", "i": i}] for i in range(1, ntx + 1)]
                for m in mids:
                    cand.append((n, dict(st, at=j, mid=m)))
        rs.shuffle(cand)
        imp = [c for c in cand if isinstance(c[1], list)]
        for n, v in cand[: (6 if tier == "quick" else 60)] + imp[: (3 if tier == "quick" else 30)]:
            steps = body[:n] + (v if isinstance(v, list) else [v]) + body[n + 1:]
            pol = rs.choice(["", "newest"])
            nm = "%s-v%s" % (s["name"], hashlib.sha1(json.dumps([n, v], sort_keys=True).encode()).hexdigest()[:8])
            sc = normalise(steps, nm, sd, pol)
            out.append(sc)
            origin[nm] = "variant"
            if len(out) >= budget:
                return out
    return out


def validate(specdir, tracedir, names, batch=12, par=12):
    batches = [names[i:i + batch] for i in range(0, len(names), batch)]
    jobs = []
    for bi, bn in enumerate(batches):
        cat = os.path.join(tracedir, "batch%03d.cat" % bi)
        index, n = [], 0
        with open(cat, "w") as out:
            for nm in bn:
                lines = open(os.path.join(tracedir, nm + ".ndjson")).read().splitlines()
                if not lines:
                    continue
                out.write("\n".join(lines) + "\n")
                index.append((nm, n + 1, n + len(lines)))
                n += len(lines)
        jobs.append((bi, cat, index, n))

    def run(job):
        bi, cat, index, n = job
        if n == 0:
            return job, "", 0, 0.0
        out, rc, wall = vlib.run_tlc(specdir, "OnosV3Trace.tla", "OnosV3Trace.cfg", env={"TRACE": cat}, workers=1,
                                     heap="2g", timeout=3600, metatag="tv%d" % bi)
        return job, out, rc, wall
    per = {}
    for (bi, cat, index, n), out, rc, wall in vlib.pmap(run, jobs, workers=par):
        if n == 0:
            continue
        bad = vlib.tlc_failed(out)
        accepted = "Postcondition TraceAccepted" not in out and "No error has been found" in out
        if bad or not accepted:
            raise vlib.Inconclusive("trace validation batch %d did not complete (%s rc=%s):\n%s" % (bi, bad, rc, out[-3000:]))
        viols = [(int(m.group(1)), re.findall(r'"([A-Za-z0-9_]+)"', m.group(2)))
                 for m in re.finditer(r'<<\s*"VIOLATION",\s*(\d+),\s*\{([^}]*)\}\s*>>', out, re.S)]
        drifts = [int(m.group(1)) for m in re.finditer(r'<<\s*"DRIFT",\s*(\d+)\s*>>', out)]
        for nm, a, b in index:
            per[nm] = dict(lines=b - a + 1, viol=[(l - a, cs) for l, cs in viols if a <= l <= b],
                           drift=[l - a for l in drifts if a <= l <= b])
    return per


def event_stats(tracedir, names):
    st = dict(commits=0, applies=0, rollback_commits=0, rollback_applies=0, failed_validations=0, refused_applies=0,
              aborted_applies=0, deaths_inside_a_reconcile=0, interleaved_steps=0, write_conflicts_or_errors=0,
              resyncs=0, elections=0, device_restarts=0, panics=0, txs=0, txs_done=0, stable_ends=0)
    for nm in names:
        prev, last = None, None
        for line in open(os.path.join(tracedir, nm + ".ndjson")):
            L = json.loads(line)
            a = L["act"]
            if a.get("died"): st["deaths_inside_a_reconcile"] += 1
            if a.get("mid"): st["interleaved_steps"] += 1
            if a.get("err"): st["write_conflicts_or_errors"] += 1
            if a.get("panic"): st["panics"] += 1
            if a["k"] == "devstop": st["device_restarts"] += 1
            if prev is not None and a["k"] != "init":
                if L["cfg"]["mterm"] > prev["cfg"]["mterm"]: st["elections"] += 1
                if L["cfg"]["aterm"] > prev["cfg"]["aterm"] and L["cfg"]["aindex"] > 0: st["resyncs"] += 1
                for i, t in enumerate(L["txs"]):
                    o = prev["txs"][i] if i < len(prev["txs"]) else None
                    for f, key in (("cc", "commits"), ("ca", "applies"), ("rc", "rollback_commits"), ("ra", "rollback_applies")):
                        if t[f] == "Complete" and (o is None or o[f] != "Complete"): st[key] += 1
                    if t["cc"] == "Failed" and (o is None or o["cc"] != "Failed"): st["failed_validations"] += 1
                    if t["ca"] == "Failed" and (o is None or o["ca"] != "Failed"): st["refused_applies"] += 1
                    if t["ca"] == "Aborted" and (o is None or o["ca"] != "Aborted"): st["aborted_applies"] += 1
            prev = last = L
        if last:
            st["txs"] += len(last["txs"])
            st["txs_done"] += sum(1 for t in last["txs"] if (t["phase"] == "Change" and t["cc"] in ("Complete", "Failed") and t["ca"] in ("Complete", "Aborted", "Failed", "Canceled"))
                                  or (t["phase"] == "Rollback" and t["rc"] == "Complete" and t["ra"] in ("Complete", "Failed", "Aborted")))
            if last["act"].get("stable"): st["stable_ends"] += 1
    return st


def check(prop, tier, replay_file=None):
    import findings
    t0 = time.time()
    sd = vlib.seed()
    sc = vlib.Scratch(prop)
    try:
        bins = vlib.build_harness(sc, cmds=("v3run",))
        specdir = vlib.copy_specs(sc, "v3")
        clauses = re.findall(r'"(C20_\w+)"', open(os.path.join(specdir, "OnosV3Props.tla")).read().split("Clauses ==")[1].split("Violated")[0])
        scenarios, origin, mc_results, sim_generated = [], {}, [], 0
        if replay_file:
            b = json.load(open(replay_file))
            s = b["scenario"] if "scenario" in b else normalise(b["steps"], "replay", sd, live=bool(b.get("live")))
            scenarios.append(s)
            origin[s["name"]] = "replay"
        else:
            for module, tmo, tiers in MC:
                if not os.path.exists(os.path.join(specdir, module + ".cfg")) or (tiers != "both" and tiers != tier):
                    continue
                res, cex = run_mc(specdir, module, min(tmo, 300) if tier == "quick" else tmo)
                mc_results.append(res)
                log("mc %s: %s" % (module, res))
                if cex:
                    s = normalise(cex, "mc-cex-" + module, sd)
                    scenarios.append(s)
                    origin[s["name"]] = "must_replay"
            for module, nq, nt, depth in SIMS:
                if not os.path.exists(os.path.join(specdir, module + ".cfg")):
                    continue
                bs, gen, wall = export_behaviours(specdir, module, nq if tier == "quick" else nt, depth, sd, sc.mkdir("beh-" + module))
                sim_generated += gen
                for i, b in enumerate(bs):
                    s = normalise(b, "%s-%d-%04d" % (module, sd, i), sd, ["", "newest"][i % 2])
                    scenarios.append(s)
                    origin[s["name"]] = "sim"
                log("sim %s: %d behaviours, %d states, %.1fs" % (module, len(bs), gen, wall))
            for name, b in load_regress():
                s = normalise(b["steps"], "regress-" + name, sd, live=bool(b.get("live")))
                scenarios.append(s)
                origin[s["name"]] = "regress"
        tracedir = sc.mkdir("traces")
        infra = replay(bins, scenarios, tracedir)
        if not replay_file:
            vs = variants(scenarios, origin, tracedir, tier, sd)
            vs += live_variants(scenarios, origin, tier, sd)
            infra += replay(bins, vs, tracedir)
            scenarios += vs
        if infra:
            raise vlib.Inconclusive("infrastructure failures during replay:\n" + "\n".join(infra[:10]))
        names = [s["name"] for s in scenarios if os.path.exists(os.path.join(tracedir, s["name"] + ".ndjson"))]
        per = validate(specdir, tracedir, names)
        known = vlib.load_known()
        by_name = {s["name"]: s for s in scenarios}
        violations, known_hits, drift_traces, drift_kinds, drift_samples = [], {}, 0, {}, []
        for nm in names:
            r = per.get(nm)
            if r is None:
                raise vlib.Inconclusive("no validation result for trace " + nm)
            tl = None
            if r["drift"] or r["viol"]:
                tl = [json.loads(x) for x in open(os.path.join(tracedir, nm + ".ndjson"))]
            if r["drift"]:
                drift_traces += 1
                for dl in r["drift"]:
                    a = tl[dl]["act"]
                    key = a["k"] + ("+mid" if a.get("mid") else "") + ("+cut" if a.get("cut") else "")
                    drift_kinds[key] = drift_kinds.get(key, 0) + 1
                    if len(drift_samples) < 8:
                        drift_samples.append(dict(trace=nm, line=dl, act=a))
            seen = set()
            for line, cs in r["viol"]:
                for c in cs:
                    if c in seen:
                        continue
                    seen.add(c)
                    hit = None
                    for k in known:
                        if k.get("property") == prop and k.get("status") == "known" and (not k.get("clause") or k["clause"] == c):
                            fn = getattr(findings, k.get("when", ""), None)
                            if not k.get("when") or (fn and fn(by_name[nm], tl, line)):
                                hit = k
                                break
                    if hit:
                        known_hits.setdefault(hit["id"], [hit, 0])[1] += 1
                    else:
                        violations.append((nm, line, c))
        # live traces depend on event delivery within the settling windows: a violation seen in live mode is only kept if the
        # same scenario shows the same clause violated again in two more runs (a lost wake-up is deterministic, a late
        # event is not); anything else is recorded as an observation
        unreproduced_live = []
        live_viol = sorted({nm for nm, line, c in violations if by_name[nm].get("live")})
        if live_viol:
            again = []
            for nm in live_viol:
                for r in (1, 2):
                    again.append(dict(by_name[nm], name="%s-again%d" % (nm, r)))
            infra2 = replay(bins, again, tracedir)
            if infra2:
                raise vlib.Inconclusive("infrastructure failures during replay:\n" + "\n".join(infra2[:10]))
            per2 = validate(specdir, tracedir, [a["name"] for a in again])
            keep = []
            for nm, line, c in violations:
                if not by_name[nm].get("live"):
                    keep.append((nm, line, c))
                    continue
                ok = all(any(c in cs for _, cs in per2["%s-again%d" % (nm, r)]["viol"]) for r in (1, 2))
                if ok:
                    keep.append((nm, line, c))
                else:
                    unreproduced_live.append(dict(trace=nm, clause=c))
            violations = keep
        for kid, (k, n) in sorted(known_hits.items()):
            print("KNOWN-FINDING: property=%s %s (%d traces)" % (prop, k["what"], n))
        reported = {}
        for nm, line, c in violations:
            reported[c] = reported.get(c, 0) + 1
            if reported[c] > 3:
                continue
            rp = vlib.save_replay(prop, hashlib.sha1((nm + c).encode()).hexdigest()[:10],
                                  dict(property=prop, clause=c, line=line, scenario=by_name[nm]))
            shutil.copy(os.path.join(tracedir, nm + ".ndjson"), rp[:-5] + ".trace.ndjson")
            print("VIOLATION property=%s replay=%s clause=%s origin=%s line=%d" % (prop, rp, c, origin.get(nm), line))
        unreproduced = [nm for nm in names if origin.get(nm) == "must_replay" and not per[nm]["viol"]]
        kinds = {}
        for s in scenarios:
            for st in s["steps"]:
                key = st["k"] + ("+mid" if st.get("mid") else "") + ("+cut" if st.get("cut") else "")
                kinds[key] = kinds.get(key, 0) + 1
        lines_total = sum(per[n]["lines"] for n in names)
        ev = dict(
            property_id=prop, tier=tier, seed=sd, level="model_checking", wall_s=round(time.time() - t0, 1),
            violations=len(violations),
            coverage=dict(
                states=max(1, sum(r["distinct"] for r in mc_results)),
                transitions=max(1, sum(r["generated"] for r in mc_results) + sim_generated),
                traces_validated_against_impl=len(names),
                real_states_checked=lines_total,
                clauses=clauses,
                model_checking=mc_results,
                simulation_states=sim_generated,
                behaviours_by_origin={o: sum(1 for n in names if origin.get(n) == o) for o in set(origin.values())},
                step_kinds=kinds,
                events_in_real_traces=event_stats(tracedir, names),
                drift_traces=drift_traces, drift_by_step=drift_kinds, drift_samples=drift_samples,
                unreproduced_model_counterexamples=unreproduced,
                live_violations_not_reproduced=unreproduced_live,
                known_findings={kid: n for kid, (k, n) in known_hits.items()},
                exhaustive=all(r["complete"] for r in mc_results) if mc_results else False,
                samples=[dict(name=s["name"], steps=s["steps"][:40]) for s in scenarios[:2]],
                checker_cmd="tools/check %s --tier %s" % (prop, tier),
            ),
            assumptions=[
                "one target, one onos-config node; Atomix test cluster is linearizable; topo, device, model plugin and connections are simulated",
                "nothing in the repository drives the v3 controllers: the harness appends changes and requests rollbacks as spec/Transaction.tla's AppendChange / RollbackChange do, and creates the target's configuration record",
                "bounded constants (see spec/v3/MC_v3*.cfg, Sim_v3*.cfg); wake-ups are not modelled: the fixed point is reached by serving every object until a pass has no effect",
            ],
        )
        vlib.write_evidence(prop, ev)
        log("%s %s: %d traces, %d real states, %d violations, %d known, drift in %d traces, %.0fs" %
            (prop, tier, len(names), lines_total, len(violations), len(known_hits), drift_traces, time.time() - t0))
        if unreproduced:
            log("model counterexamples not reproduced on the real code (model to be corrected):", unreproduced)
        return vlib.EXIT_VIOLATION if violations else vlib.EXIT_OK
    finally:
        sc.cleanup()
