#!/usr/bin/env python3
"""Run registered checks against a seeded property-breaking change.
   usage: tools/seedtest.py <seeded id> [--tier quick] [--props C01,C02] [--seeds 1,2]
   Applies seeded/<id>/patch.diff to /repo (git apply), runs tools/check for the properties, ALWAYS reverts
   (git checkout -- .), and records the outcome in seeded/<id>/result.json."""
import json, os, subprocess, sys, time
VERIF = os.path.dirname(os.path.dirname(os.path.abspath(__file__)))

def main():
    sid = sys.argv[1]
    tier, props, seeds = "quick", None, ["1"]
    a = sys.argv[2:]
    while a:
        if a[0] == "--tier": tier = a[1]
        elif a[0] == "--props": props = a[1].split(",")
        elif a[0] == "--seeds": seeds = a[1].split(",")
        a = a[2:]
    d = os.path.join(VERIF, "seeded", sid)
    meta = json.load(open(os.path.join(d, "meta.json")))
    props = props or [meta["property"]]
    if subprocess.run(["git", "-C", "/repo", "status", "--porcelain"], capture_output=True, text=True).stdout.strip():
        sys.exit("/repo is not clean")
    subprocess.run(["git", "-C", "/repo", "apply", os.path.join(d, "patch.diff")], check=True)
    results = []
    try:
        for p in props:
            for sd in seeds:
                t0 = time.time()
                r = subprocess.run([os.path.join(VERIF, "tools", "check"), p, "--tier", tier], cwd=VERIF, capture_output=True, text=True,
                                   env=dict(os.environ, VERIF_SEED=sd, VERIF_NO_EVIDENCE="1"))
                v = [l for l in r.stdout.splitlines() if l.startswith("VIOLATION")]
                results.append(dict(check=p, tier=tier, seed=sd, rc=r.returncode, wall_s=round(time.time() - t0), violations=len(v),
                                    clauses=sorted({w.split("=", 1)[1] for l in v for w in l.split() if w.startswith("clause=")}),
                                    tail=r.stderr.strip().splitlines()[-1:] ))
                print(json.dumps(results[-1]), flush=True)
    finally:
        subprocess.run(["git", "-C", "/repo", "checkout", "--", "."], check=True)
    rp = os.path.join(d, "result.json")
    old = json.load(open(rp)) if os.path.exists(rp) else []
    json.dump(old + results, open(rp, "w"), indent=1)

main()
