"""Store engine (C15): seeded concurrent histories on the REAL v2 / v3 stores (harness/cmd/storerun),
validated by TLC against spec/store/StoreTrace."""
import json, os, re, shutil, subprocess, sys, time, hashlib
import vlib
from vlib import VERIF

STORES = ["v2tx", "v2prop", "v2cfg", "v3tx", "v3cfg"]


def log(*a):
    print(*a, file=sys.stderr, flush=True)


def check(prop, tier, replay_file=None):
    t0 = time.time()
    sd = vlib.seed()
    sc = vlib.Scratch("C15s")
    try:
        bins = vlib.build_harness(sc, cmds=("storerun",))
        specdir = sc.mkdir("spec-store")
        for f in os.listdir(os.path.join(VERIF, "spec", "store")):
            shutil.copy(os.path.join(VERIF, "spec", "store", f), specdir)
        n = 24 if tier == "quick" else 300
        ops = 8 if tier == "quick" else 10
        jobs = []
        for st in STORES:
            for part in range(2 if tier == "quick" else 10):
                jobs.append((st, part))
        one = None
        if replay_file:
            # the history of a replay file is run again (same store, same seed: same operations; the interleaving of the
            # real goroutines is whatever it is this time)
            hh = json.load(open(replay_file))["history"]
            one = (hh["store"], hh["seed"] // 1000, hh["seed"] % 1000)
            jobs = [(hh["store"], 0)]

        def run(job):
            st, part = job
            out = sc.path("hist-%s-%d.ndjson" % (st, part))
            per = n // (2 if tier == "quick" else 10)
            args = ["-n", str(per), "-seed", str(sd * 100 + part)]
            if one:
                args = ["-n", str(one[2] + 1), "-from", str(one[2]), "-seed", str(one[1])]
            r = subprocess.run([bins["storerun"], "-store", st] + args + ["-ops", str(ops), "-bound", "10000", "-out", out],
                               stdout=subprocess.PIPE, stderr=subprocess.PIPE, text=True, timeout=3600)
            return st, out, r.returncode, r.stderr
        hists = []
        for st, out, rc, err in vlib.pmap(run, jobs, workers=10):
            if rc != 0:
                raise vlib.Inconclusive("storerun %s failed rc=%d:\n%s" % (st, rc, "\n".join(l for l in err.splitlines() if "WARN" not in l)[-2500:]))
            hists += [json.loads(x) for x in open(out)]
        batches = [hists[i:i + 100] for i in range(0, len(hists), 100)]

        def val(job):
            bi, hs = job
            p = os.path.join(specdir, "sh%03d.ndjson" % bi)
            with open(p, "w") as f:
                for h in hs:
                    f.write(json.dumps(h) + "\n")
            out, rc, wall = vlib.run_tlc(specdir, "StoreTrace.tla", "StoreTrace.cfg", env={"TRACE": p}, workers=1, heap="3g", timeout=3600, metatag="sv%d" % bi)
            return bi, hs, out
        viols, diag = [], {}
        for bi, hs, out in vlib.pmap(val, list(enumerate(batches)), workers=8):
            bad = vlib.tlc_failed(out)
            if bad or "No error has been found" not in out or "Postcondition" in out:
                raise vlib.Inconclusive("store validation batch %d did not complete (%s):\n%s" % (bi, bad, out[-2000:]))
            for m in re.finditer(r'<<\s*"VIOLATION",\s*(\d+),\s*\{([^}]*)\}\s*>>', out, re.S):
                h = hs[int(m.group(1)) - 1]
                for c in re.findall(r'"(\w+)"', m.group(2)):
                    if c.startswith("C15_"):
                        viols.append((h, c))
                    else:
                        diag[c] = diag.get(c, 0) + 1
        # A subscription that never delivers ANYTHING after it was opened (the watcher saw at most the replayed record,
        # although writes followed) has been seen about once in a thousand histories on the unchanged code, on stores whose
        # watchers are Atomix event streams of their own; the same history never shows it twice: the Atomix test runtime
        # occasionally does not establish a stream.  Such an observation is a verdict only if it can be reproduced -
        # a store that really does not register or serve a watcher fails again; everything else (a watcher that was
        # served and then starved) is a verdict at once.
        def dead_subscription(h):
            bad = [(wn, k) for wn, w in h["watchers"].items() if not w["bad"] for k, ok in w["final"].items() if not ok]
            return bool(bad) and all(len(h["watchers"][wn]["seen"].get(k) or []) <= 1 for wn, k in bad)

        def reproduces(h):
            base, i = h["seed"] // 1000, h["seed"] % 1000
            for attempt in range(2):
                out = sc.path("rerun-%s-%d-%d.ndjson" % (h["store"], h["seed"], attempt))
                r = subprocess.run([bins["storerun"], "-store", h["store"], "-n", str(i + 1), "-from", str(i), "-seed", str(base), "-ops", str(ops), "-bound", "10000", "-out", out],
                                   stdout=subprocess.PIPE, stderr=subprocess.PIPE, text=True, timeout=3600)
                if r.returncode != 0:
                    return True
                for x in open(out):
                    h2 = json.loads(x)
                    if h2.get("seed") == h["seed"] and any(not ok for w in h2["watchers"].values() if not w["bad"] for ok in w["final"].values()):
                        return True
            return False
        dropped = 0
        kept = []
        confirmed = set()   # stores on which a dead subscription has been reproduced once: no need to ask again
        for h, c in viols:
            if c == "C15_WatcherSeesLatest" and dead_subscription(h) and h["store"] not in confirmed:
                if reproduces(h):
                    confirmed.add(h["store"])
                    kept.append((h, c))
                    continue
            if c == "C15_WatcherSeesLatest" and dead_subscription(h) and h["store"] not in confirmed:
                dropped += 1
                log("C15: a subscription that delivered nothing (store %s, seed %d) did not reproduce in two re-runs: not a verdict" % (h["store"], h["seed"]))
                continue
            kept.append((h, c))
        viols = kept
        diag["subscriptions_that_delivered_nothing_and_did_not_reproduce"] = dropped
        shown = {}
        for h, c in viols:
            key = (h["store"], c)
            shown[key] = shown.get(key, 0) + 1
            if shown[key] > 2:
                continue
            rp = vlib.save_replay(prop, "store-%s-%d-%s" % (h["store"], h["seed"], c), dict(property=prop, clause=c, history=h))
            print("VIOLATION property=%s replay=%s clause=%s store=%s seed=%d" % (prop, rp, c, h["store"], h["seed"]))
        nev = sum(len(h["events"]) for h in hists)
        ev = dict(property_id=prop, tier=tier, seed=sd, level="model_checking", wall_s=round(time.time() - t0, 1), violations=len(viols),
                  coverage=dict(states=len(hists) + 1, transitions=max(1, nev), traces_validated_against_impl=len(hists),
                                histories_per_store={s: sum(1 for h in hists if h["store"] == s) for s in STORES},
                                events=nev, diagnostics=diag,
                                successful_updates=sum(1 for h in hists for e in h["events"] if e["k"] == "ret" and e["op"].startswith("update") and e["ok"]),
                                refused_updates=sum(1 for h in hists for e in h["events"] if e["k"] == "ret" and e["op"].startswith("update") and not e["ok"]),
                                watchers=sum(len(h["watchers"]) for h in hists), cancelling_watchers=sum(1 for h in hists for w in h["watchers"].values() if w["bad"]),
                                max_ms_until_all_watchers_saw_final_state=max(h["stallms"] for h in hists),
                                samples=[dict(store=hists[0]["store"], events=hists[0]["events"][:12])]),
                  assumptions=["the Atomix test cluster is linearizable", "returned versions are the witnesses of the linearisation order",
                               "a live watcher must be shown the final version within 10 s"])
        vlib.write_evidence(prop, ev)
        log("%s %s store: %d histories, %d events, %d violations, %.0fs" % (prop, tier, len(hists), nev, len(viols), time.time() - t0))
        return vlib.EXIT_VIOLATION if viols else vlib.EXIT_OK
    finally:
        sc.cleanup()
