"""Checks for the v2 pipeline properties (C01 C02 C04-C11).

  1. TLC, exhaustive, on spec/v2 with the property's bounded configuration: the property clauses are
     checked on the specification; states/transitions go to the evidence.  A specification-level
     counterexample is exported (its schedule) and marked must_replay.
  2. TLC -simulate on the property's scenario families exports behaviours (schedule + fault script +
     request history) as JSON.
  3. Every behaviour (plus the committed regression behaviours) is replayed on the REAL code by the
     Go harness, which records the projected abstract state after every step.
  4. TLC validates the recorded real traces against OnosV2Trace: the property clauses are evaluated
     on every real state / step (verdict) and every step is checked to be a specification step (drift).
  5. Violations are matched against known_findings.json; anything else is a VIOLATION.
"""
import json, os, random, re, subprocess, sys, time, hashlib, shutil
import vlib
from vlib import VERIF

# property -> configuration of its check
#   clauses: prefixes of the clause names of OnosV2Props / OnosV2Trace evaluated for the verdict
#   sims: (simulation module, behaviours quick, behaviours thorough, depth)
#   mc: (exhaustive config module, quick?, timeout s)
PIPE = {
    "C01": dict(clauses=["C01_"], sims=[("Sim_multi", 60, 300, 170), ("Sim_multi_crash", 40, 250, 170), ("Sim_multi_dev", 20, 150, 170)], mc=[("MC_c01q", 400, "quick"), ("MC_c01", 1500, "thorough")]),
    "C02": dict(clauses=["C02_"], sims=[("Sim_base", 50, 250, 150), ("Sim_conn", 50, 250, 150), ("Sim_multi", 20, 150, 170)], mc=[("MC_c02", 900, "both")], corpus=[("MC_c07p", 150, 1500)], crashpoints=True),
    "C04": dict(clauses=["C04_"], sims=[("Sim_conn", 60, 400, 150), ("Sim_rollback", 30, 200, 170), ("Sim_dev_conn", 50, 300, 170)], mc=[("MC_c04q", 400, "quick"), ("MC_c04", 1500, "thorough"), ("MC_c04f", 1500, "thorough")], corpus=[("MC_c04f", 150, 1500)], data=True, focus=r'^<<"(exec|cfg)"', repeat=6),
    "C05": dict(clauses=["C05_"], sims=[("Sim_base", 60, 300, 150), ("Sim_multi", 40, 200, 170), ("Sim_rollback", 30, 200, 170)], mc=[("MC_c05", 900, "both"), ("MC_c05r", 900, "both")], data=True, focus=r'^<<"prop", "\w+", "DI'),
    "C06": dict(clauses=["C06_"], sims=[("Sim_rollback", 100, 500, 170), ("Sim_rbconn", 30, 200, 170)], mc=[("MC_c06", 900, "both")], data=True, crashpoints=True, focus=r'"rollback"'),
    "C07": dict(clauses=["C07_"], sims=[("Sim_crash", 80, 400, 150), ("Sim_multi_crash", 40, 200, 170)], mc=[("MC_c07", 900, "both"), ("MC_c07p", 2400, "thorough")], corpus=[("MC_c07p", 150, 1500)], crashpoints=True),
    "C08": dict(clauses=["C08_"], sims=[("Sim_client", 90, 450, 150), ("Sim_base", 30, 150, 150), ("Sim_dev", 30, 150, 150), ("Sim_rollback", 20, 100, 170)], mc=[("MC_c08", 900, "both")], delays=True),
    "C09": dict(clauses=["C09_"], sims=[("Sim_base", 60, 400, 150), ("Sim_dev", 40, 200, 150), ("Sim_multi", 30, 150, 170), ("Sim_rbconn", 40, 200, 170), ("Sim_multi_dev", 20, 150, 170)], mc=[("MC_c09", 900, "both"), ("MC_c09r", 900, "both")]),
    "C10": dict(clauses=["C10_"], sims=[("Sim_conn", 100, 500, 150)], mc=[("MC_c10", 900, "both")], corpus=[("MC_c04f", 150, 1500)], focus=r'^<<"(exec|cfg|mast)"', repeat=6),
    "C11": dict(clauses=["C11_"], sims=[("Sim_dev", 100, 500, 150), ("Sim_multi", 20, 100, 170), ("Sim_multi_dev", 40, 250, 170), ("Sim_dev_conn", 30, 200, 170)], mc=[("MC_c11", 900, "both")], crashpoints=True),
}

EPILOGUE = [{"k": "drain"}, {"k": "heal"}, {"k": "drain"}, {"k": "observe"}, {"k": "probe"}, {"k": "drain"}, {"k": "observe"}]


def log(*a):
    print(*a, file=sys.stderr, flush=True)


def export_behaviours(specdir, module, num, depth, sd, outdir, timeout=1200):
    os.makedirs(outdir, exist_ok=True)
    out, rc, wall = vlib.run_tlc(specdir, module + ".tla", module + ".cfg",
                                 args=["-simulate", "num=%d" % num, "-depth", str(depth + 5), "-seed", str(sd)],
                                 env={"EXPORT_DIR": outdir}, workers=1, timeout=timeout, metatag="sim")
    bad = vlib.tlc_failed(out)
    if bad or rc not in (0,):
        raise vlib.Inconclusive("simulation of %s failed (%s, rc=%s):\n%s" % (module, bad, rc, out[-3000:]))
    gen, _ = vlib.tlc_stats(out)
    files = sorted(os.listdir(outdir))
    scs = []
    for f in files:
        b = json.load(open(os.path.join(outdir, f)))
        scs.append(b)
    return scs, gen, wall


POLICIES = ["", "newest", "oldest"]


def epilogue_of(pol, healfirst):
    ep = [dict(st, pol=pol) if st["k"] == "drain" and pol else st for st in EPILOGUE]
    return ep[1:] if healfirst else ep


def epilogue(name):
    """the order in which pending work is served once the behaviour ends is part of what is explored: seeded random,
    newest log index first (work pending since a restart is served last), oldest first - chosen by the name"""
    import zlib
    h = zlib.crc32(("pol" + name).encode())
    pol = POLICIES[h % 3]
    ep = [dict(st, pol=pol) if st["k"] == "drain" and pol else st for st in EPILOGUE]
    if (h // 3) % 2 == 1:
        ep = ep[1:]   # the environment heals (process restarted, targets connected) before any pending work is served
    return ep


def normalise(b, name, sd):
    steps = list(b["steps"]) + epilogue(name)
    import zlib
    return {"name": name, "targets": sorted(b["targets"]), "seed": sd * 100003 + zlib.crc32(name.encode()) % 100000, "steps": steps,
            "noplugin": b.get("noplugin", []), "limit": b.get("limit", 0)}


def load_regress(prop):
    out = []
    d = os.path.join(VERIF, "regress")
    if not os.path.isdir(d):
        return out
    for f in sorted(os.listdir(d)):
        if not f.endswith(".json"):
            continue
        b = json.load(open(os.path.join(d, f)))
        if prop in b.get("props", []) or "*" in b.get("props", []):
            out.append((f[:-5], b))
    return out


def replay(bins, scenarios, outdir, workers=16):
    os.makedirs(outdir, exist_ok=True)

    def cmd(ci, chunk):
        inp = "%s.in%03d.ndjson" % (outdir, ci)
        with open(inp, "w") as f:
            for s in chunk:
                f.write(json.dumps(s) + "\n")
        return [bins["replay"], "-in", inp, "-out", outdir, "-workers", "4"]
    infra = []
    for ci, rc, out, err in vlib.run_chunked(cmd, scenarios):
        infra += [l for l in err.splitlines() if l.startswith("replay: scenario")]
        if rc not in (0, 2):
            raise vlib.Inconclusive("replay crashed rc=%d:\n%s" % (rc, err[-3000:]))
    return infra


def validate_batches(specdir, tracedir, names, clauses, drift, scenarios, batch=10, par=12):
    """TLC trace validation of the recorded real traces.  Returns per-trace results."""
    # which clauses: a generated module
    clause_set = "{" + ", ".join('"%s"' % c for c in clauses) + "}"
    with open(os.path.join(specdir, "TraceSel.tla"), "w") as f:
        f.write("---- MODULE TraceSel ----\nEXTENDS TLC\nSelectedSet == %s\nCheckDrift == %s\n%s\n====\n"
                % (clause_set, "TRUE" if drift else "FALSE", env_constants(scenarios)))
    batches = [names[i:i + batch] for i in range(0, len(names), batch)]
    jobs = []
    for bi, bn in enumerate(batches):
        cat = os.path.join(tracedir, "batch%03d.cat" % bi)
        index = []  # (trace name, first line (1-based), last line)
        n = 0
        with open(cat, "w") as out:
            for nm in bn:
                p = os.path.join(tracedir, nm + ".ndjson")
                if not os.path.exists(p):
                    continue
                lines = open(p).read().splitlines()
                if not lines:
                    continue
                out.write("\n".join(lines) + "\n")
                index.append((nm, n + 1, n + len(lines)))
                n += len(lines)
        jobs.append((bi, cat, index, n))

    def run(job):
        bi, cat, index, n = job
        if n == 0:
            return job, "", 0, 0.0
        out, rc, wall = vlib.run_tlc(specdir, "OnosV2Trace.tla", "OnosV2Trace.cfg", env={"TRACE": cat}, workers=1,
                                     heap="3g", timeout=3600, metatag="tv%d" % bi)
        return job, out, rc, wall

    results = vlib.pmap(run, jobs, workers=par)
    per_trace = {}
    for (bi, cat, index, n), out, rc, wall in results:
        if n == 0:
            continue
        bad = vlib.tlc_failed(out)
        accepted = "Postcondition TraceAccepted" not in out and "No error has been found" in out
        if bad or not accepted:
            raise vlib.Inconclusive("trace validation batch %d did not complete (%s rc=%s):\n%s" % (bi, bad, rc, out[-3000:]))
        viols = [(int(m.group(1)), re.findall(r'"([A-Za-z0-9_]+)"', m.group(2)))
                 for m in re.finditer(r'<<\s*"VIOLATION",\s*(\d+),\s*\{([^}]*)\}\s*>>', out, re.S)]
        drifts = [int(m.group(1)) for m in re.finditer(r'<<\s*"DRIFT",\s*(\d+)\s*>>', out)]
        for nm, a, b in index:
            per_trace[nm] = dict(lines=b - a + 1,
                                 viol=[(l - a, cs) for l, cs in viols if a <= l <= b],
                                 drift=[l - a for l in drifts if a <= l <= b])
    return per_trace


def tla_str(x):
    return '"%s"' % x


def tla_fn(d, val):
    """a TLA+ function literal from a dict (empty: <<>>)"""
    if not d:
        return "<< >>"
    return "(" + " @@ ".join("%s :> %s" % (tla_str(k), val(v)) for k, v in sorted(d.items())) + ")"


def env_constants(scenarios):
    targets, conns, handlers, codes, reqs = set(), set(), set(), set(), set()
    for s in scenarios:
        targets.update(s["targets"])
        for st in s["steps"]:
            k = st["k"]
            if k == "connup":
                conns.add(st["conn"])
            elif k == "devfail":
                codes.add(int(st["code"]))
            elif k == "set":
                handlers.add(st["h"])
                ch = tla_fn(st.get("ch", {}), lambda m: tla_fn(m, tla_str))
                reqs.add('[kind |-> "change", sync |-> %s, rb |-> 0, ch |-> %s]' % ("TRUE" if st.get("sync") else "FALSE", ch))
            elif k == "rollback":
                handlers.add(st["h"])
                reqs.add('[kind |-> "rollback", sync |-> TRUE, rb |-> %d, ch |-> << >>]' % int(st.get("idx", 0)))
    conns.update("z%d" % i for i in range(1, 17))  # connections made by the healing epilogue
    st = lambda xs: "{" + ", ".join(sorted(xs)) + "}"
    return "\n".join([
        "TS_Targets == " + st(tla_str(x) for x in targets),
        "TS_ConnIds == " + st(tla_str(x) for x in conns),
        "TS_HandlerNames == " + st(tla_str(x) for x in handlers),
        "TS_FailCodes == " + st(str(x) for x in codes),
        "TS_Requests == " + st(reqs),
    ])


def run_mc(specdir, module, timeout, workers=12):
    """Exhaustive TLC on the specification with the property's invariants."""
    dump = os.path.join(specdir, module + "_cex.json")
    out, rc, wall = vlib.run_tlc(specdir, module + ".tla", module + ".cfg", args=["-dumpTrace", "json", dump],
                                 env={"COVER": "1"}, workers=workers, heap="16g", timeout=timeout, metatag="mc")
    gen, dist = vlib.tlc_stats(out)
    # coverage-directed witnesses: shortest schedule per distinct reconcile context (OnosV2MC!Cover)
    cover = {}
    for m in re.finditer(r'<<\s*"COVER",\s*(".*")\s*>>', out):
        try:
            j = json.loads(json.loads(m.group(1)))
        except ValueError:
            continue
        c = j["ctx"]
        if c not in cover or len(j["steps"]) < len(cover[c]["steps"]):
            cover[c] = j
    out = re.sub(r'<<\s*"COVER",\s*".*"\s*>>\n', "", out)
    res = dict(module=module, generated=gen, distinct=dist, wall_s=round(wall, 1), complete="Model checking completed" in out,
               violated=re.findall(r"Invariant (\w+) is violated|property (\w+) is violated", out), timed_out=(rc == -9))
    bad = vlib.tlc_failed(out)
    if bad and not res["violated"]:
        raise vlib.Inconclusive("model checking %s failed (%s):\n%s" % (module, bad, out[-3000:]))
    cex = None
    if res["violated"] and os.path.exists(dump):
        try:
            j = json.load(open(dump))
            states = j["counterexample"]["state"]
            last = states[-1]
            last = last[1] if isinstance(last, list) else last
            cex = dict(targets=sorted(last.get("dev", {}).keys()), steps=last.get("sched", []))
        except Exception as e:  # noqa
            log("could not read counterexample dump:", e)
    res["violated"] = sorted({a or b for a, b in res["violated"]})
    res["contexts"] = len(cover)
    return res, cex, cover


def finding_matches(k, prop, clause, scenario, trace_lines, line):
    """Does known finding k describe this violation?  Signatures are structural predicates over the
    failing scenario (see known_findings.json)."""
    import findings
    if k.get("property") != prop or k.get("status") != "known":
        return False
    if k.get("clause") and k["clause"] != clause:
        return False
    pred = k.get("when")
    if not pred:
        return True
    fn = getattr(findings, pred, None)
    return bool(fn and fn(scenario, trace_lines, line))


def check(prop, tier, replay_file=None):
    t0 = time.time()
    conf = PIPE[prop]
    sd = vlib.seed()
    sc = vlib.Scratch(prop)
    try:
        bins = vlib.build_harness(sc)
        specdir = vlib.copy_specs(sc, "v2")
        all_clauses = clause_names(specdir)
        clauses = [c for c in all_clauses if any(c.startswith(p) for p in conf["clauses"])]
        scenarios, origin = [], {}
        mc_results, sim_generated = [], 0
        if replay_file:
            b = json.load(open(replay_file))
            scenarios.append(b["scenario"] if "scenario" in b else normalise(b, "replay", sd))
            origin[scenarios[0]["name"]] = "replay"
        else:
            # 1. exhaustive model checking of the specification
            for module, tmo, tiers in conf["mc"]:
                if not os.path.exists(os.path.join(specdir, module + ".cfg")):
                    continue
                if tiers != "both" and tiers != tier:
                    continue
                if tier == "quick":
                    tmo = min(tmo, 400)
                res, cex, cover = run_mc(specdir, module, tmo)
                mc_results.append(res)
                log("mc %s: %s" % (module, res))
                # one real-code run per distinct reconcile context the exhaustive exploration met (all of them in the
                # thorough tier, a seeded sample in the quick tier)
                ctxs = sorted(cover)
                want = conf.get("cover", (150, 1500))[0 if tier == "quick" else 1]
                if len(ctxs) > want:
                    # the contexts in which the reconcile branches the property is about decide (validation for C05,
                    # rollbacks for C06, ...) are taken first, up to two thirds of the sample; the rest is a seeded sample
                    rs = random.Random(sd)
                    foc = [c for c in ctxs if conf.get("focus") and re.search(conf["focus"], c)]
                    rs.shuffle(foc)
                    foc = foc[: (2 * want) // 3]
                    rest = [c for c in ctxs if c not in set(foc)]
                    ctxs = sorted(foc + rs.sample(rest, want - len(foc)))
                res["contexts_replayed"] = len(ctxs)
                for c in ctxs:
                    s = normalise(cover[c], "cover-%s-%s" % (module, hashlib.sha1(c.encode()).hexdigest()[:10]), sd)
                    s["ctx"] = c
                    scenarios.append(s)
                    origin[s["name"]] = "cover"
                if cex and cex["steps"]:
                    s = normalise(cex, "mc-cex-" + module, sd)
                    scenarios.append(s)
                    origin[s["name"]] = "must_replay"
            # 1b. witnesses of exhaustive explorations that are too large for this tier: a committed corpus
            #     (corpus/<module>.cover.json, written from a thorough-tier exploration of the same specification)
            for module, nq, nt in conf.get("corpus", []):
                cp = os.path.join(VERIF, "corpus", module + ".cover.json")
                if not os.path.exists(cp) or any(r["module"] == module and r["complete"] for r in mc_results):
                    continue
                corp = json.load(open(cp))["contexts"]
                ctxs = sorted(corp)
                want = nq if tier == "quick" else nt
                if len(ctxs) > want:
                    rs = random.Random(sd)
                    foc = [c for c in ctxs if conf.get("focus") and re.search(conf["focus"], c)]
                    rs.shuffle(foc)
                    foc = foc[: (2 * want) // 3]
                    rest = [c for c in ctxs if c not in set(foc)]
                    ctxs = sorted(foc + rs.sample(rest, want - len(foc)))
                for c in ctxs:
                    # the code under test makes choices of its own (the mastership election picks a relation at random):
                    # a witness only leads where the specification says if those choices fall the same way, so the
                    # witnesses of the contexts in focus are replayed several times
                    reps = conf.get("repeat", 1) if (conf.get("focus") and re.search(conf["focus"], c) and c.startswith('<<"exec"')) else 1
                    for ri in range(reps):
                        s = normalise(corp[c], "corpus-%s-%s%s" % (module, hashlib.sha1(c.encode()).hexdigest()[:10], "-r%d" % ri if ri else ""), sd)
                        s["ctx"] = c
                        scenarios.append(s)
                        origin[s["name"]] = "corpus"
            # 2. behaviours from simulation
            for module, nq, nt, depth in conf["sims"]:
                if not os.path.exists(os.path.join(specdir, module + ".cfg")):
                    log("missing simulation config", module)
                    continue
                num = nq if tier == "quick" else nt
                bs, gen, wall = export_behaviours(specdir, module, num, depth, sd, sc.mkdir("beh-" + module))
                sim_generated += gen
                for i, b in enumerate(bs):
                    s = normalise(b, "%s-%d-%04d" % (module, sd, i), sd)
                    scenarios.append(s)
                    origin[s["name"]] = module
                log("sim %s: %d behaviours, %d states, %.1fs" % (module, len(bs), gen, wall))
            for name, b in load_regress(prop):
                s = normalise(b, "regress-" + name, sd)
                scenarios.append(s)
                origin[s["name"]] = "regress"
        if conf.get("delays") and not replay_file:
            scenarios += delayed_consumer_variants(scenarios, origin, tier, sd)
        # 3. replay on the real code
        tracedir = sc.mkdir("traces")
        infra = replay(bins, scenarios, tracedir)
        names = [s["name"] for s in scenarios if os.path.exists(os.path.join(tracedir, s["name"] + ".ndjson"))]
        if conf.get("crashpoints") and not replay_file:
            # crash points of REALISED executions: every persisted effect of every reconcile of the base runs
            vs = crashpoint_variants(scenarios, origin, tier, sd, tracedir)
            infra += replay(bins, vs, tracedir)
            scenarios += vs
            names += [s["name"] for s in vs if os.path.exists(os.path.join(tracedir, s["name"] + ".ndjson"))]
        bad_infra = [l for l in infra]
        if bad_infra:
            raise vlib.Inconclusive("infrastructure failures during replay:\n" + "\n".join(bad_infra[:10]))
        # 4. trace validation
        per_trace = validate_batches(specdir, tracedir, names, clauses, True, scenarios)
        # 4b. amplification: a behaviour on which the real code left the specification (drift) without breaking a clause
        #     is replayed again under every resume schedule (which pending work is served first, heal before / after)
        #     and other seeds: if the divergence matters to the property, one of these makes it visible.  The verdict
        #     still only comes from the clauses on the recorded real states; on a conforming tree nothing drifts and
        #     nothing is added.
        if not replay_file:
            by0 = {s["name"]: s for s in scenarios}
            drifted = [nm for nm in names if per_trace[nm]["drift"] and not per_trace[nm]["viol"] and origin.get(nm) != "slow-consumer"]
            random.Random(sd).shuffle(drifted)
            amp = []
            for nm in drifted[:40]:
                base = by0[nm]
                body = [st for st in base["steps"] if st["k"] not in ("heal", "observe", "probe") and not (st["k"] == "drain")]
                for ai, (pol, hf) in enumerate([(p, h) for p in POLICIES for h in (False, True)]):
                    v = dict(base, name="%s-amp%d" % (nm, ai), steps=body + epilogue_of(pol, hf), seed=base["seed"] + 7919 * (ai + 1))
                    amp.append(v)
                    origin[v["name"]] = "amplified"
            if amp:
                infra2 = replay(bins, amp, tracedir)
                if infra2:
                    raise vlib.Inconclusive("infrastructure failures during replay:\n" + "\n".join(infra2[:10]))
                anames = [s["name"] for s in amp if os.path.exists(os.path.join(tracedir, s["name"] + ".ndjson"))]
                per_trace.update(validate_batches(specdir, tracedir, anames, clauses, True, scenarios + amp))
                scenarios += amp
                names += anames
                log("amplified %d drifting behaviours into %d" % (len(drifted[:40]), len(anames)))
        # 5. classify
        known = vlib.load_known()
        by_name = {s["name"]: s for s in scenarios}
        violations, known_hits, drift_traces = [], {}, 0
        drift_kinds, drift_samples = {}, []
        for nm in names:
            r = per_trace.get(nm)
            if r is None:
                raise vlib.Inconclusive("no validation result for trace " + nm)
            if origin.get(nm) == "slow-consumer":
                r["drift"] = []   # a composite step by construction (reconciles inside the handler's Watch step): state clauses only
            if r["drift"]:
                drift_traces += 1
                tl0 = [json.loads(x) for x in open(os.path.join(tracedir, nm + ".ndjson"))]
                for dl in r["drift"]:
                    a = tl0[dl]["act"]
                    key = a["k"] + ":" + a.get("c", "")
                    drift_kinds[key] = drift_kinds.get(key, 0) + 1
                    if len(drift_samples) < 8:
                        drift_samples.append(dict(trace=nm, line=dl, act={k: v for k, v in a.items() if v not in ("", 0, False, {}, None)}))
            seen = set()
            for line, cs in r["viol"]:
                for c in cs:
                    if c in seen:
                        continue
                    seen.add(c)
                    tl = [json.loads(x) for x in open(os.path.join(tracedir, nm + ".ndjson"))]
                    hit = None
                    for k in known:
                        if finding_matches(k, prop, c, by_name[nm], tl, line):
                            hit = k
                            break
                    if hit:
                        known_hits.setdefault(hit["id"], [hit, 0])[1] += 1
                    else:
                        violations.append((nm, line, c))
        for kid, (k, n) in sorted(known_hits.items()):
            print("KNOWN-FINDING: property=%s %s (%d traces)" % (prop, k["what"], n))
        # the data clauses of this property on request histories (spec/data, harness/cmd/datarun)
        data_ev, data_viols = None, []
        if conf.get("data") and not replay_file:
            import datacheck
            dbins = vlib.build_harness(sc, cmds=("datarun",))
            dres = datacheck.run(prop, tier, [prop + "_"], sc, dbins)
            data_viols, dhits = datacheck.classify_and_report(prop, dres, known)
            data_ev = dict(histories=len(dres["names"]), observations=dres["observations"], exploration=dres["explored"],
                           violations=len(data_viols), known_findings={k: n for k, (_, n) in dhits.items()})
        reported = {}
        for nm, line, c in violations:
            reported[c] = reported.get(c, 0) + 1
            if reported[c] > 3:
                continue  # at most three replay files per clause; the count is in the evidence
            rp = vlib.save_replay(prop, hashlib.sha1((nm + c).encode()).hexdigest()[:10],
                                  dict(property=prop, clause=c, line=line, scenario=by_name[nm]))
            # the code under test is itself nondeterministic (Go map order, math/rand): keep the recorded trace too
            shutil.copy(os.path.join(tracedir, nm + ".ndjson"), rp[:-5] + ".trace.ndjson")
            print("VIOLATION property=%s replay=%s clause=%s origin=%s line=%d" % (prop, rp, c, origin.get(nm), line))
        # model-level counterexamples that the real code did not reproduce are a model problem, not a verdict
        unreproduced = [nm for nm in names if origin.get(nm) == "must_replay" and not per_trace[nm]["viol"]]
        # evidence
        kinds = {}
        for s in scenarios:
            for st in s["steps"]:
                kinds[st["k"]] = kinds.get(st["k"], 0) + 1
        lines_total = sum(per_trace[n]["lines"] for n in names)
        ev = dict(
            property_id=prop, tier=tier, seed=sd, level="model_checking", wall_s=round(time.time() - t0, 1),
            violations=len(violations) + len(data_viols),
            coverage=dict(
                data_histories=data_ev,
                states=max(1, sum(r["distinct"] for r in mc_results) + 0),
                transitions=max(1, sum(r["generated"] for r in mc_results) + sim_generated),
                traces_validated_against_impl=len(names) + (data_ev["histories"] if data_ev else 0),
                real_states_checked=lines_total,
                clauses=clauses,
                model_checking=mc_results,
                simulation_states=sim_generated,
                behaviours_by_origin={o: sum(1 for n in names if origin.get(n) == o) for o in set(origin.values())},
                step_kinds=kinds,
                events_in_real_traces=event_stats(tracedir, names),
                drift_traces=drift_traces,
                drift_by_step=drift_kinds,
                drift_samples=drift_samples,
                unreproduced_model_counterexamples=unreproduced,
                known_findings={kid: n for kid, (k, n) in known_hits.items()},
                exhaustive=all(r["complete"] for r in mc_results) if mc_results else False,
                samples=[dict(name=s["name"], steps=s["steps"][:40]) for s in scenarios[:2]],
                checker_cmd="tools/check %s --tier %s" % (prop, tier),
            ),
            assumptions=[
                "Atomix test cluster is linearizable; topo, device, model plugin and connection manager are simulated",
                "bounded constants (see the simulation / model-checking configs under spec/v2)",
                "schedule picks from TLC are hints; the real work sets are authoritative",
            ],
        )
        vlib.write_evidence(prop, ev)
        log("%s %s: %d traces, %d real states, %d violations, %d known, drift in %d traces, %.0fs" %
            (prop, tier, len(names), lines_total, len(violations), len(known_hits), drift_traces, time.time() - t0))
        if unreproduced:
            log("model counterexamples not reproduced on the real code (model to be corrected):", unreproduced)
        return vlib.EXIT_VIOLATION if violations else vlib.EXIT_OK
    finally:
        sc.cleanup()


def event_stats(tracedir, names):
    """How often the situations the clauses talk about actually occurred in the real traces."""
    st = dict(merges=0, rollback_merges=0, failed_validations=0, refused_applies=0, transient_device_answers=0,
              denied_device_answers=0, resync_pushes=0, crashes=0, restarts=0, elections=0, aborted_txs=0,
              handlers_ok=0, handlers_failed=0, handlers_lost=0, handler_fine_steps=0, multi_target_txs=0,
              txs_applied=0, txs_failed=0, fine_steps=0, probes=0, conn_events=0, device_restarts=0, traces_with_pending_at_end=0)
    for nm in names:
        last = None
        term = {}
        for line in open(os.path.join(tracedir, nm + ".ndjson")):
            L = json.loads(line)
            k = L["act"]["k"]
            for m in L["merges"]:
                if m["ok"]:
                    st["merges"] += 1
                    p = L["props"].get(m["by"])
                    if p and p["kind"] == "rollback":
                        st["rollback_merges"] += 1
            for d in L["devlog"]:
                if d["ctl"] == "cfg":
                    st["resync_pushes"] += 1
                if d["code"] in (14, 1, 4):
                    st["transient_device_answers"] += 1
                elif d["code"] == 7:
                    st["denied_device_answers"] += 1
                elif d["code"] != 0:
                    st["refused_applies"] += 1
            for pc in L["plug"]:
                if not pc["valid"]:
                    st["failed_validations"] += 1
            if L["done"]:
                if k == "crash": st["crashes"] += 1
                if k == "restart": st["restarts"] += 1
                if k in ("connup", "conndown"): st["conn_events"] += 1
                if k == "devrestart": st["device_restarts"] += 1
                if k == "hexec": st["handler_fine_steps"] += 1
                if k in ("begin", "exec"): st["fine_steps"] += 1
                if k == "probe": st["probes"] += 1
            for t, c in L["cfgs"].items():
                if c["term"] > term.get(t, 0):
                    st["elections"] += c["term"] - term.get(t, 0)
                    term[t] = c["term"]
            if k == "init":
                term = {}
            last = L
        if last:
            for t in last["txs"]:
                if t["state"] == "APPLIED": st["txs_applied"] += 1
                if t["state"] == "FAILED": st["txs_failed"] += 1
                if t["ph"]["abt"] == "D": st["aborted_txs"] += 1
                if len(t["ch"]) > 1: st["multi_target_txs"] += 1
            for h in last["h"].values():
                if h["st"] == "done" and h["ok"]: st["handlers_ok"] += 1
                if h["st"] == "done" and not h["ok"]: st["handlers_failed"] += 1
                if h["st"] == "lost": st["handlers_lost"] += 1
            if any(t["state"] not in ("APPLIED", "FAILED") for t in last["txs"]):
                st["traces_with_pending_at_end"] += 1
    return st


def clause_names(specdir):
    s = open(os.path.join(specdir, "OnosV2Trace.tla")).read()
    names = re.findall(r'name = "(\w+)" ->', s)
    return sorted(set(names))


def delayed_consumer_variants(scenarios, origin, tier, sd):
    """C08: the northbound handler creates its transaction, subscribes to it, and is slow to take the first event of
    its stream (the handler goroutine loses the CPU between Watch() returning and its first receive).  In the
    specification ClientWatch is one step; in a behaviour with fine-grained client steps the reconciles that follow the
    Watch step are moved INSIDE it: the harness lets the real handler call Watch, runs those reconciles while nobody
    reads the handler's stream, and only then lets it read.  Whatever the store does with a registered but unread
    watcher, the handler must still be answered truthfully."""
    rnd = random.Random(sd + 7)
    out = []
    for s in scenarios:
        steps = s["steps"]
        seen = {}
        cands = []
        for i, st in enumerate(steps):
            if st["k"] == "hexec":
                seen[st["h"]] = seen.get(st["h"], 0) + 1
                if seen[st["h"]] == 2:
                    j = i + 1
                    while j < len(steps) and steps[j]["k"] == "run" and j - i <= 3:
                        j += 1
                    if j > i + 1:
                        cands.append((i, j))
        rnd.shuffle(cands)
        for i, j in cands[:2]:
            v = dict(s, name="%s-slow%03d" % (s["name"], i),
                     steps=steps[:i] + [dict(steps[i], during=steps[i + 1:j])] + steps[j:])
            out.append(v)
            origin[v["name"]] = "slow-consumer"
    rnd.shuffle(out)
    return out[: (150 if tier == "quick" else 3000)]


def crashpoint_variants(scenarios, origin, tier, sd, tracedir):
    """Real-code crash-point enumeration.  A crash-free base behaviour has been replayed; its recorded trace lists
    every step that was actually executed (including the picks of the drains) and the persisted effects of each.
    For every reconcile step k of that realised execution and every j < (its number of effects) a variant is built:
    the realised steps before k, then the k-th reconcile begun in fine mode, j of its effects released, the process
    killed and restarted, and the usual epilogue (drain to quiescence, heal, probe).  j = all effects is the crash
    between two reconciles.  Quick: a seeded sample of bases and points; thorough: every point of many bases."""
    rnd = random.Random(sd)
    out = []
    base = [s for s in scenarios if not any(st["k"] in ("crash", "begin") for st in s["steps"])
            and os.path.exists(os.path.join(tracedir, s["name"] + ".ndjson"))]
    # behaviours that do the most are the most useful bases; the committed life-cycle regressions come first
    def weight(s):
        return (0 if origin.get(s["name"]) == "regress" else 1, -sum(1 for st in s["steps"] if st["k"] in ("set", "rollback", "connup")), s["name"])
    base.sort(key=weight)
    head, tail = base[:3], base[3:]
    rnd.shuffle(tail)
    base = head + tail[: (2 if tier == "quick" else 12)]
    budget = 120 if tier == "quick" else 2000

    def actor(st):
        if st["c"] == "prop":
            return "prop:" + st["id"].rsplit("-", 1)[0]
        return st["c"]
    points = []
    for s in base:
        lines = [json.loads(x) for x in open(os.path.join(tracedir, s["name"] + ".ndjson"))]
        real = []   # realised steps, with the number of effects each had
        for L in lines[1:]:
            a = L["act"]
            if not L["done"] or a["k"] in ("drain", "observe", "probe", "force", "heal"):
                continue
            st = {k: v for k, v in a.items() if v not in ("", 0, False, None, {}) and k != "auto"}
            real.append((st, len(L.get("effects") or [])))
            if a["k"] == "probe":
                break
        # stop at the first epilogue drain: what the base did before it was healed
        for k, (st, n) in enumerate(real):
            if st["k"] == "run" and st.get("c") in ("tx", "prop", "cfg", "mast"):
                for j in range(1, n + 1):
                    points.append((s, real, k, j, n))
    # ... x the schedule in which work resumes: which pending work is served first, and whether the environment heals
    # (targets connected again) before or after the first of it
    combos = [(pol, hf) for pol in POLICIES for hf in (False, True)]
    points = [pt + (cb,) for pt in points for cb in (combos if tier != "quick" else [("newest", True)] + rnd.sample(combos[:-1], 1))]
    rnd.shuffle(points)
    # the crashes between the writes of one proposal reconcile (configuration and proposal are two records), resumed
    # newest-first after the environment healed, are served first: they leave the most to be re-derived
    points.sort(key=lambda pt: 0 if (pt[1][pt[2]][0].get("c") == "prop" and pt[3] < pt[4] and pt[5] == ("newest", True)
                                     and origin.get(pt[0]["name"]) == "regress") else 1)
    for s, real, k, j, n, (pol, hf) in points[:budget]:
        st = real[k][0]
        pre = [x for x, _ in real[:k]]
        if j == n:
            mid = [st, {"k": "crash"}, {"k": "restart"}]
        else:
            mid = [{"k": "begin", "c": st["c"], "id": st["id"]}] + [{"k": "exec", "a": actor(st)}] * j + [{"k": "crash"}, {"k": "restart"}]
        vname = "%s-x%03d-%d%s%s" % (s["name"], k, j, pol[:1] or "r", "h" if hf else "")
        v = dict(s, name=vname, steps=pre + mid + epilogue_of(pol, hf), seed=s["seed"] * 131 + k * 7 + j)
        out.append(v)
        origin[v["name"]] = "crashpoint"
    return out
