"""Structural signatures of known findings (referenced by name from known_findings.json).
Each predicate gets the failing scenario, the recorded trace lines and the offending line index and
says whether this violation is the specific, already-described one."""


def _changes(scenario):
    return [st for st in scenario["steps"] if st["k"] == "set"]


def always(scenario, trace, line):
    return True


def _under(p, q):
    """q lies beneath p at a path element boundary"""
    return len(q) > len(p) and q.startswith(p) and q[len(p)] in "/["


def v3_rollback_of_subtree_delete(scenario, trace, line):
    """F44: at the offending line some transaction is in its Rollback phase whose change DELETES a path that had stored
    values beneath it when it was committed (a sub-tree delete) - the v3 controller captures only the deleted path itself
    as rollback value, so the rollback restores nothing beneath it and leaves the tombstone in place."""
    if not trace or line >= len(trace):
        return False
    L = trace[line]
    stored = set()
    for prev in trace[:line + 1]:
        for t in prev["txs"]:
            stored.update(p for p, v in t["values"].items() if v != "<del>")
    for t in L["txs"]:
        if t["phase"] != "Rollback":
            continue
        for p, v in t["values"].items():
            if v == "<del>" and any(_under(p, q) for q in stored):
                return True
    return False


def v3_next_ordinal_not_next_index(scenario, trace, line):
    """F46: (live mode) at the offending fixed point a CHANGE k is committed, its apply Pending and its ordinal is the next one
    to be applied (cord = applied ordinal + 1), the apply stage that ended last was the ROLLBACK of a transaction j (its
    rollback ordinal is the applied ordinal) and k is not j+1: the requeue at the end of j's rollback names j+1, the
    configuration event names the targets / last indexes - nothing names k."""
    if not trace or line >= len(trace):
        return False
    L = trace[line]
    aord = L["cfg"]["aord"]
    ended = [t for t in L["txs"] if t["phase"] == "Rollback" and t["rord"] == aord and t["ra"] in ("Complete", "Failed")]
    if not ended:
        return False
    j = ended[0]["i"]
    for t in L["txs"]:
        if t["phase"] == "Change" and t["cc"] == "Complete" and t["ca"] == "Pending" and t["cord"] == aord + 1 and t["i"] != j + 1:
            return True
    return False


def v3_torn_applied_values(scenario, trace, line):
    """F47: the applied value map (its own Atomix map) already holds the values of an apply whose version-checked
    configuration entry write was refused (write conflict) or has not happened yet: at the offending line some transaction's
    apply (change or rollback) is IN PROGRESS and every applied value that differs from what the applied revision's
    transaction set is exactly that in-progress apply's value for the path."""
    if not trace or line >= len(trace):
        return False
    L = trace[line]
    av = L["cfg"]["avalues"]
    arev = L["cfg"]["arev"]
    txs = {t["i"]: t for t in L["txs"]}
    if arev not in txs:
        return False
    inflight = {}
    for t in L["txs"]:
        if t["ca"] == "InProgress":
            inflight.update(t["values"])
        if t["ra"] == "InProgress":
            inflight.update(t["rvalues"])
    if not inflight:
        return False
    diff = [p for p, v in txs[arev]["values"].items() if av.get(p) != v]
    return bool(diff) and all(p in inflight and av.get(p) == inflight[p] for p in diff)


def v3_next_ordinal_not_next_index(scenario, trace, line):  # noqa: F811 (supersedes the first version above)
    """F46: (live mode) at the offending fixed point some transaction k holds the next ordinal to be applied (its change
    apply is Pending with cord = applied ordinal + 1, or its rollback apply is Pending with rord = applied ordinal + 1),
    the apply stage that ended last was the ROLLBACK of a transaction j (its rollback ordinal is the applied ordinal) and
    k is neither j nor j+1: the requeue at the end of j's rollback names j+1, the configuration event names the targets and
    the last indexes - nothing names k."""
    if not trace or line >= len(trace):
        return False
    L = trace[line]
    aord = L["cfg"]["aord"]
    ended = [t for t in L["txs"] if t["phase"] == "Rollback" and t["rord"] == aord and t["ra"] in ("Complete", "Failed")]
    if not ended:
        return False
    j = ended[0]["i"]
    for t in L["txs"]:
        nxt = (t["cc"] == "Complete" and t["ca"] == "Pending" and t["cord"] == aord + 1) or \
              (t["phase"] == "Rollback" and t["rc"] == "Complete" and t["ra"] == "Pending" and t["rord"] == aord + 1)
        if nxt and t["i"] not in (j, j + 1):
            return True
    return False
