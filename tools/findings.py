"""Structural signatures of known findings (referenced by name from known_findings.json).
Each predicate gets the failing scenario, the recorded trace lines and the offending line index and
says whether this violation is the specific, already-described one."""


def _changes(scenario):
    return [st for st in scenario["steps"] if st["k"] == "set"]


def always(scenario, trace, line):
    return True


def _under(p, q):
    """q lies beneath p at a path element boundary"""
    return len(q) > len(p) and q.startswith(p) and q[len(p)] in "/["


def v3_rollback_of_subtree_delete(scenario, trace, line):
    """F44: at the offending line some transaction is in its Rollback phase whose change DELETES a path that had stored
    values beneath it when it was committed (a sub-tree delete) - the v3 controller captures only the deleted path itself
    as rollback value, so the rollback restores nothing beneath it and leaves the tombstone in place."""
    if not trace or line >= len(trace):
        return False
    L = trace[line]
    stored = set()
    for prev in trace[:line + 1]:
        for t in prev["txs"]:
            stored.update(p for p, v in t["values"].items() if v != "<del>")
    for t in L["txs"]:
        if t["phase"] != "Rollback":
            continue
        for p, v in t["values"].items():
            if v == "<del>" and any(_under(p, q) for q in stored):
                return True
    return False


def v3_next_ordinal_not_next_index(scenario, trace, line):
    """F46: (live mode) at the offending fixed point a CHANGE k is committed, its apply Pending and its ordinal is the next one
    to be applied (cord = applied ordinal + 1), the apply stage that ended last was the ROLLBACK of a transaction j (its
    rollback ordinal is the applied ordinal) and k is not j+1: the requeue at the end of j's rollback names j+1, the
    configuration event names the targets / last indexes - nothing names k."""
    if not trace or line >= len(trace):
        return False
    L = trace[line]
    aord = L["cfg"]["aord"]
    ended = [t for t in L["txs"] if t["phase"] == "Rollback" and t["rord"] == aord and t["ra"] in ("Complete", "Failed")]
    if not ended:
        return False
    j = ended[0]["i"]
    for t in L["txs"]:
        if t["phase"] == "Change" and t["cc"] == "Complete" and t["ca"] == "Pending" and t["cord"] == aord + 1 and t["i"] != j + 1:
            return True
    return False
