"""Structural signatures of known findings (referenced by name from known_findings.json).
Each predicate gets the failing scenario, the recorded trace lines and the offending line index and
says whether this violation is the specific, already-described one."""


def _changes(scenario):
    return [st for st in scenario["steps"] if st["k"] == "set"]


def always(scenario, trace, line):
    return True
