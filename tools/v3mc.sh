#!/bin/bash
# v3mc.sh <module> [timeout]: model-check one spec/v3 configuration in a scratch copy, print verdict, schedule and last state
m=$1; t=${2:-900}
d=$(mktemp -d /tmp/v3mc-XXXX); cp /verif/spec/v3/*.tla /verif/spec/v3/*.cfg $d/; cd $d
timeout $t java -Xmx12g -Xss64m -cp /opt/veriftools/tla/tla2tools.jar:/opt/veriftools/tla/CommunityModules-deps.jar tlc2.TLC -metadir $d/meta -workers 12 -dumpTrace json $d/cex.json -config $m.cfg $m.tla > out.txt 2>&1
grep "Error: Inv\|violated\|states generated\|Model checking completed" out.txt | head -5
python3 - <<PY
import json,os
if os.path.exists("$d/cex.json"):
    st=json.load(open("$d/cex.json"))["counterexample"]["state"][-1]
    st=st[1] if isinstance(st,list) else st
    print("SCHED", json.dumps(st["sched"][4:]))
    w=st["w"]; c=w["cfg"]
    print("CFG", {k:c[k] for k in c})
    for i,t in enumerate(w["txs"]): print("TX",i+1,t)
    print("DEV", w["dev"], "conns", w["conns"])
PY
rm -rf $d
