#!/bin/bash
# confirm a seeded change in its scratch worktree: demo fails with it, passes without it, the repository suite passes with it
# usage: confirm_seed.sh <worktree> <demo test file (relative)> <go test -run regexp> [tags]
set -u
export GOFLAGS=-mod=mod GOPROXY=off GOSUMDB=off GOTOOLCHAIN=local
wt=$1; demo=$2; run=$3; tags=${4:-}
pkg=./$(dirname $demo)/
cd $wt || exit 2
git apply -R --check mutant.diff 2>/dev/null || git apply mutant.diff || exit 2
echo "== demo WITH change (expect FAIL)"
go test -vet=off -count=1 ${tags:+-tags $tags} -run "$run" $pkg 2>&1 | grep -E '^(--- |FAIL|ok|PASS)' | head -20
git apply -R mutant.diff
echo "== demo WITHOUT change (expect ok)"
go test -vet=off -count=1 ${tags:+-tags $tags} -run "$run" $pkg 2>&1 | grep -E '^(--- |FAIL|ok|PASS)' | head -20
git apply mutant.diff
echo "== suite WITH change, demo moved away (expect all ok)"
mv $demo /tmp/$(basename $wt)-demo.go.txt
go build ./... && go test -vet=off -count=1 ./... 2>&1 | grep -Ev '^(ok|\?)' | head -20
mv /tmp/$(basename $wt)-demo.go.txt $demo
echo "== done"
