"""Shared machinery of the /verif checks: scratch space, TLC invocation, harness build, evidence,
known findings.  Python is only the conductor: verdicts are computed by TLC (property clauses of the
TLA+ specifications evaluated on states recorded from the real code) or, for the data properties,
by comparing the real code's output with the expected result computed by the specification."""
import json, os, re, shutil, subprocess, sys, tempfile, time, glob, concurrent.futures

VERIF = os.path.dirname(os.path.dirname(os.path.abspath(__file__)))
REPO = "/repo"
JAVA_CP = "/opt/veriftools/tla/tla2tools.jar:/opt/veriftools/tla/CommunityModules-deps.jar"
GOENV = dict(GOFLAGS="-mod=mod", GOPROXY="off", GOSUMDB="off", GOTOOLCHAIN="local")

EXIT_OK, EXIT_VIOLATION, EXIT_INCONCLUSIVE = 0, 1, 2


class Inconclusive(Exception):
    pass


def seed():
    try:
        return int(os.environ.get("VERIF_SEED", "1"))
    except ValueError:
        return 1


class Scratch:
    def __init__(self, tag):
        base = os.environ.get("VERIF_SCRATCH") or tempfile.gettempdir()
        self.dir = tempfile.mkdtemp(prefix="verif-%s-" % tag, dir=base)
        self.keep = bool(os.environ.get("VERIF_KEEP"))

    def path(self, *p):
        d = os.path.join(self.dir, *p)
        return d

    def mkdir(self, *p):
        d = self.path(*p)
        os.makedirs(d, exist_ok=True)
        return d

    def cleanup(self):
        if not self.keep:
            shutil.rmtree(self.dir, ignore_errors=True)


def build_harness(scratch, cmds=("replay",)):
    """Build the Go harness against /repo's current working tree with the verif tag."""
    env = dict(os.environ, **GOENV)
    hdir = os.path.join(VERIF, "harness")
    # go.sum of the harness module is the repository's own (no network: nothing else can be resolved)
    outs = {}
    for c in cmds:
        out = scratch.path("bin-" + c)
        r = subprocess.run(["go", "build", "-tags", "verif", "-o", out, "./cmd/" + c], cwd=hdir, env=env,
                           stdout=subprocess.PIPE, stderr=subprocess.STDOUT, text=True)
        if r.returncode != 0:
            raise Inconclusive("harness does not build against /repo:\n" + r.stdout[-4000:])
        outs[c] = out
    return outs


def copy_specs(scratch, *subdirs):
    d = scratch.mkdir("spec")
    for sd in subdirs:
        for f in glob.glob(os.path.join(VERIF, "spec", sd, "*")):
            if f.endswith(".tla") or f.endswith(".cfg"):
                shutil.copy(f, d)
    return d


def run_tlc(specdir, module, cfg, args=(), env=None, heap="4g", timeout=3600, workers=None, metatag="m"):
    meta = tempfile.mkdtemp(prefix="meta-" + metatag + "-", dir=specdir)
    cmd = ["java", "-Xmx" + heap, "-Xss64m", "-XX:+UseParallelGC", "-cp", JAVA_CP, "tlc2.TLC",
           "-metadir", meta, "-config", cfg]
    if workers:
        cmd += ["-workers", str(workers)]
    cmd += list(args) + [module]
    e = dict(os.environ)
    if env:
        e.update(env)
    t0 = time.time()
    try:
        r = subprocess.run(cmd, cwd=specdir, env=e, stdout=subprocess.PIPE, stderr=subprocess.STDOUT, text=True, timeout=timeout)
        out, rc = r.stdout, r.returncode
    except subprocess.TimeoutExpired as ex:
        out, rc = (ex.stdout or b"").decode() if isinstance(ex.stdout, bytes) else (ex.stdout or ""), -9
    shutil.rmtree(meta, ignore_errors=True)
    return out, rc, time.time() - t0


def tlc_stats(out):
    """states generated / distinct from a TLC run"""
    m = re.findall(r"(\d+) states generated, (\d+) distinct states found", out)
    if m:
        return int(m[-1][0]), int(m[-1][1])
    m = re.findall(r"Progress\(\d+\) at [^:]+:\d+:\d+: ([\d,]+) states generated.*?, ([\d,]+) distinct states found", out)
    if m:
        return int(m[-1][0].replace(",", "")), int(m[-1][1].replace(",", ""))
    m = re.findall(r"The number of states generated: (\d+)", out)
    if m:
        return int(m[-1]), 0
    return 0, 0


def tlc_failed(out):
    for pat in ("Parsing or semantic analysis failed", "java.lang.OutOfMemoryError", "StackOverflowError",
                "TLC threw an unexpected exception", "Error: TLC threw", "Fatal error", "The exception was a java",
                "Error: Evaluating", "Error: Attempted", "Error: The first argument", "Error: In evaluation"):
        if pat in out:
            return pat
    return None


def write_evidence(prop, ev):
    if os.environ.get("VERIF_NO_EVIDENCE"):  # runs against seeded changes (tools/seedtest.py) do not touch the evidence
        return
    d = os.environ.get("VERIF_EVIDENCE_DIR") or os.path.join(VERIF, "evidence")
    os.makedirs(d, exist_ok=True)
    p = os.path.join(d, prop + ".json")
    with open(p + ".tmp", "w") as f:
        json.dump(ev, f, indent=1, sort_keys=True)
    os.replace(p + ".tmp", p)


def load_known():
    p = os.path.join(VERIF, "known_findings.json")
    if not os.path.exists(p):
        return []
    return json.load(open(p))["findings"]


def save_replay(prop, name, obj):
    d = os.path.join(VERIF, "replays")
    os.makedirs(d, exist_ok=True)
    p = os.path.join(d, "%s-%s.json" % (prop, name))
    with open(p, "w") as f:
        json.dump(obj, f)
    return p


def pmap(fn, items, workers=8):
    with concurrent.futures.ThreadPoolExecutor(max_workers=workers) as ex:
        return list(ex.map(fn, items))


def run_chunked(cmd_for_chunk, items, chunk=48, procs=4, timeout=7200):
    """The Atomix test cluster the harness uses does not release its memory on Close (about 90 MB per world), so
    harness commands are run over chunks of the work in separate processes."""
    chunks = [items[i:i + chunk] for i in range(0, len(items), chunk)]

    def one(job):
        ci, ch = job
        cmd = cmd_for_chunk(ci, ch)
        r = subprocess.run(cmd, stdout=subprocess.PIPE, stderr=subprocess.PIPE, text=True, timeout=timeout)
        return ci, r.returncode, r.stdout, r.stderr
    return pmap(one, list(enumerate(chunks)), workers=procs)
