#!/usr/bin/env python3
"""debug helper: all realised crash points of one committed regression behaviour, validated with a property's clauses
   usage: tools/dbg_crash.py <Cnn> <regress name> [seed]"""
import sys, os, json
sys.path.insert(0, os.path.dirname(os.path.abspath(__file__)))
import vlib, pipeline
prop, name = sys.argv[1], sys.argv[2]
sd = int(sys.argv[3]) if len(sys.argv) > 3 else 1
sc = vlib.Scratch("dbg")
bins = vlib.build_harness(sc)
specdir = vlib.copy_specs(sc, "v2")
clauses = [c for c in pipeline.clause_names(specdir) if any(c.startswith(p) for p in pipeline.PIPE[prop]["clauses"])]
b = json.load(open(os.path.join(vlib.VERIF, "regress", name + ".json")))
s = pipeline.normalise(b, "regress-" + name, sd)
origin = {s["name"]: "regress"}
tracedir = sc.mkdir("traces")
print(pipeline.replay(bins, [s], tracedir))
pipeline_budget = 100000
vs = pipeline.crashpoint_variants([s], origin, "thorough", sd, tracedir)
print(len(vs), "variants")
print(pipeline.replay(bins, vs, tracedir)[:3])
names = [v["name"] for v in vs if os.path.exists(os.path.join(tracedir, v["name"] + ".ndjson"))]
per = pipeline.validate_batches(specdir, tracedir, names, clauses, True, [s] + vs)
bad = {n: r for n, r in per.items() if r["viol"]}
print(len(names), "validated,", len(bad), "with violations, drift in", sum(1 for r in per.values() if r["drift"]))
for n, r in list(bad.items())[:5]:
    print(n, r["viol"][:3])
if bad and os.environ.get("VERIF_KEEP"):
    print("kept", sc.dir)
else:
    sc.cleanup()
