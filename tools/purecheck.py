"""Pure-function engine (C16 paths, C17 values, C18 JSON tree): TLC enumerates the case space of
spec/pure/PureModel, harness/cmd/purerun applies the REAL functions (v2 and v3), TLC evaluates the
expectations of PureModel on every result (PureTrace)."""
import json, os, random, re, shutil, sys, time, hashlib
import vlib
from vlib import VERIF

FAMILIES = {"C16": [("path", "both")], "C17": [("value", "both")], "C18": [("tree4", "quick"), ("tree5", "thorough")]}
LEVEL = {"C16": "exploration", "C17": "exploration", "C18": "model_checking"}


def log(*a):
    print(*a, file=sys.stderr, flush=True)


def check(prop, tier, replay_file=None):
    t0 = time.time()
    sd = vlib.seed()
    sc = vlib.Scratch(prop + "p")
    try:
        bins = vlib.build_harness(sc, cmds=("purerun",))
        specdir = sc.mkdir("spec-pure")
        for f in os.listdir(os.path.join(VERIF, "spec", "pure")):
            shutil.copy(os.path.join(VERIF, "spec", "pure", f), specdir)
        cases, explored = [], []
        if replay_file:
            cases = [json.load(open(replay_file))["case"]]
        else:
            for fam, t in FAMILIES[prop]:
                if t not in ("both", tier):
                    continue
                out, rc, wall = vlib.run_tlc(specdir, "PureModel.tla", "Cases_%s.cfg" % fam, workers=8, heap="12g", timeout=3000, metatag="pc")
                bad = vlib.tlc_failed(out)
                if bad or rc != 0:
                    raise vlib.Inconclusive("case enumeration %s failed (%s):\n%s" % (fam, bad, out[-2000:]))
                cs = [json.loads(json.loads(m.group(1))) for m in re.finditer(r'<<\s*"CASE",\s*(".*")\s*>>', out)]
                gen, dist = vlib.tlc_stats(out)
                explored.append(dict(family=fam, cases=len(cs), generated=gen, distinct=dist, wall_s=round(wall, 1)))
                cases += cs
        inp, outp = sc.path("pure.in"), sc.path("pure.out")
        with open(inp, "w") as f:
            for c in cases:
                f.write(json.dumps(c) + "\n")
        import subprocess
        r = subprocess.run([bins["purerun"], "-in", inp, "-out", outp], stdout=subprocess.PIPE, stderr=subprocess.PIPE, text=True, timeout=3600)
        if r.returncode != 0:
            raise vlib.Inconclusive("purerun failed:\n" + r.stderr[-2000:])
        obs = [json.loads(x) for x in open(outp)]
        batches = [obs[i:i + 20000] for i in range(0, len(obs), 20000)]

        def val(job):
            bi, ls = job
            p = os.path.join(specdir, "pobs%03d.ndjson" % bi)
            with open(p, "w") as f:
                for L in ls:
                    f.write(json.dumps(L) + "\n")
            out, rc, wall = vlib.run_tlc(specdir, "PureTrace.tla", "PureTrace.cfg", env={"TRACE": p}, workers=1, heap="6g", timeout=3600, metatag="pv%d" % bi)
            return bi, ls, out
        viols, beyond = [], 0
        for bi, ls, out in vlib.pmap(val, list(enumerate(batches)), workers=6):
            bad = vlib.tlc_failed(out)
            if bad or "No error has been found" not in out or "Postcondition" in out:
                raise vlib.Inconclusive("pure validation batch %d did not complete (%s):\n%s" % (bi, bad, out[-2000:]))
            beyond += len(re.findall(r'<<\s*"BEYOND",\s*\d+\s*>>', out))
            for m in re.finditer(r'<<\s*"VIOLATION",\s*(\d+),\s*\{([^}]*)\}\s*>>', out, re.S):
                L = ls[int(m.group(1)) - 1]
                for c in re.findall(r'"(\w+)"', m.group(2)):
                    if c.startswith(prop + "_"):
                        viols.append((L, c))
        shown = {}
        for L, c in viols:
            shown[c] = shown.get(c, 0) + 1
            if shown[c] > 3:
                continue
            rp = vlib.save_replay(prop, "pure-" + hashlib.sha1((json.dumps(L["case"], sort_keys=True) + c).encode()).hexdigest()[:10],
                                  dict(property=prop, clause=c, case=L["case"], observed={k: v for k, v in L.items() if k != "case"}))
            print("VIOLATION property=%s replay=%s clause=%s case=%s" % (prop, rp, c, json.dumps(L["case"])[:300]))
        cov = dict(evaluations=len(obs), distinct_nontrivial=len({json.dumps(o["case"], sort_keys=True) for o in obs if o["panic"] == ""}),
                   rule="cases are the elements of the TLC-enumerated case space (spec/pure/PureModel), distinct by construction; non-trivial = the real function returned",
                   states=max(1, sum(e["distinct"] for e in explored)), transitions=max(1, sum(e["generated"] for e in explored)),
                   traces_validated_against_impl=len(obs), exploration=explored, exhaustive=True,
                   outside_accepted_alphabet_and_misbehaving=beyond, samples=[o["case"] for o in obs[:3]])
        if prop == "C16":
            cov["accepted_cases"] = sum(1 for o in obs if o.get("accepted"))
        vlib.write_evidence(prop, dict(property_id=prop, tier=tier, seed=sd, level=LEVEL[prop], wall_s=round(time.time() - t0, 1), violations=len(viols), coverage=cov,
                                       assumptions=["expectations of spec/pure/PureModel (reference pruning / live leaves, RFC 7951 kinds, round trips)", "finite alphabets and path universe"]))
        log("%s %s pure: %d cases, %d violations, beyond=%d, %.0fs" % (prop, tier, len(obs), len(viols), beyond, time.time() - t0))
        return vlib.EXIT_VIOLATION if viols else vlib.EXIT_OK
    finally:
        sc.cleanup()
