#!/usr/bin/env python3
"""print a recorded v3 trace compactly: v3dbg.py <trace.ndjson> [from [to]]"""
import json, sys
ls = [json.loads(x) for x in open(sys.argv[1])]
a = int(sys.argv[2]) if len(sys.argv) > 2 else 0
b = int(sys.argv[3]) if len(sys.argv) > 3 else len(ls)
for n, d in enumerate(ls):
    if n < a or n > b: continue
    act = {k: v for k, v in d['act'].items() if v not in (0, [], "", False)}
    print(n, act)
    c = d['cfg']
    print('     cfg %s m=%s mt=%d at=%d | C idx=%d chg=%d tgt=%d ord=%d rev=%d %s | A idx=%d tgt=%d ord=%d rev=%d %s' % (c['state'][:6], c['master'], c['mterm'], c['aterm'], c['cindex'], c['cchange'], c['ctarget'], c['cord'], c['crev'], c['cvalues'], c['aindex'], c['atarget'], c['aord'], c['arev'], c['avalues']))
    for t in d['txs']:
        print('     tx%d %s %s cc=%s ca=%s cord=%d | rc=%s ra=%s rord=%d ridx=%d %s' % (t['i'], t['phase'][:3], t['values'], t['cc'], t['ca'], t['cord'], t['rc'], t['ra'], t['rord'], t['rindex'], t['rvalues']))
    print('     dev up=%s %s conns=%s failq=%s' % (d['dev']['up'], d['dev']['vals'], d['conns'], d['dev']['failq']), ('devlog=%s' % d['devlog']) if d['devlog'] else '')
