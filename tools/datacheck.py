"""Data-semantics engine (C03; data clauses of C04, C05, C06).

  1. TLC explores spec/data/ConfigData exhaustively for the bounded history shapes of the tier and
     exports every history; TLC -simulate adds longer random histories.  The model-level comparison of
     the transcribed algorithm with the reference (Agree) is recorded per history (classification only).
  2. harness/cmd/datarun sends every history through the REAL northbound Set / RollbackTransaction and
     controllers on a connected target and records Get (PROTO, JSON, patterns), plugin document, device.
  3. TLC validates the recorded observations against the reference semantics (DataTrace): the verdict.
"""
import json, os, random, re, subprocess, sys, time, hashlib
import vlib
from vlib import VERIF

PATTERNS = ["/a", "/a/b", "/a/*", "/a/...", "/l", "/l[k=1]", "/l[k=*]/x", "/m", "/*/b", "/..."]

# (config, tier, sample) - exhaustive configs are replayed completely unless a sample size is given
EXHAUSTIVE = [("Data_2x1", "quick", None), ("Data_1x2", "quick", 600),
              ("Data_2x1", "thorough", None), ("Data_1x2", "thorough", None), ("Data_3x1", "thorough", 6000)]
SIMULATE = [("Data_4x2", "quick", 300, 6), ("Data_4x2", "thorough", 4000, 6)]


def log(*a):
    print(*a, file=sys.stderr, flush=True)


def parse_hists(out):
    hs = {}
    for m in re.finditer(r'<<\s*"HIST",\s*(".*?"),\s*(TRUE|FALSE)\s*>>', out):
        h = json.loads(m.group(1))
        hs.setdefault(h, m.group(2) == "TRUE")
        if m.group(2) == "FALSE":
            hs[h] = False
    return hs


def explore(specdir, cfg, simulate=None, sd=1, timeout=1800):
    args = []
    workers = 8
    if simulate:
        num, depth = simulate
        args = ["-simulate", "num=%d" % num, "-depth", str(depth), "-seed", str(sd)]
        workers = 1
    out, rc, wall = vlib.run_tlc(specdir, "ConfigDataMC.tla", cfg + ".cfg", args=args, workers=workers, heap="8g", timeout=timeout, metatag="data")
    bad = vlib.tlc_failed(out)
    if bad or rc != 0:
        raise vlib.Inconclusive("exploration of %s failed (%s rc=%s):\n%s" % (cfg, bad, rc, out[-2000:]))
    gen, dist = vlib.tlc_stats(out)
    return parse_hists(out), gen, dist, wall


def run(prop, tier, clause_prefixes, sc, bins, replay_file=None):
    """returns dict(violations=[(case, n, clause)], cases=..., stats=...)"""
    sd = vlib.seed()
    rnd = random.Random(sd)
    specdir = sc.mkdir("spec-data")
    for f in os.listdir(os.path.join(VERIF, "spec", "data")):
        if f.endswith(".tla") or f.endswith(".cfg"):
            import shutil
            shutil.copy(os.path.join(VERIF, "spec", "data", f), specdir)
    cases, origin = {}, {}
    explored = []
    if replay_file:
        b = json.load(open(replay_file))
        cases[b["case"]["name"]] = b["case"]
    else:
        for cfg, t, sample in EXHAUSTIVE:
            if t != tier:
                continue
            hs, gen, dist, wall = explore(specdir, cfg, sd=sd)
            keys = sorted(hs)
            disagree = [k for k in keys if not hs[k]]
            if sample and len(keys) > sample:
                keep = set(disagree)  # every history on which the model already disagrees with the reference is replayed
                rest = [k for k in keys if k not in keep]
                keep.update(rnd.sample(rest, max(0, sample - len(keep))))
                keys = sorted(keep)
            explored.append(dict(config=cfg, exhaustive=True, histories=len(hs), model_disagrees=len(disagree), replayed=len(keys),
                                 generated=gen, distinct=dist, wall_s=round(wall, 1)))
            for k in keys:
                name = "%s-%s" % (cfg, hashlib.sha1(k.encode()).hexdigest()[:10])
                cases[name] = dict(name=name, ops=json.loads(k), patterns=PATTERNS, seed=sd)
                origin[name] = cfg
        for cfg, t, num, depth in SIMULATE:
            if t != tier:
                continue
            hs, gen, dist, wall = explore(specdir, cfg, simulate=(num, depth), sd=sd)
            explored.append(dict(config=cfg, exhaustive=False, histories=len(hs), model_disagrees=sum(1 for v in hs.values() if not v),
                                 replayed=len(hs), generated=gen, distinct=dist, wall_s=round(wall, 1)))
            for k in sorted(hs):
                name = "%s-sim-%s" % (cfg, hashlib.sha1(k.encode()).hexdigest()[:10])
                cases[name] = dict(name=name, ops=json.loads(k), patterns=PATTERNS, seed=sd)
                origin[name] = cfg + "-sim"
        rd = os.path.join(VERIF, "regress-data")
        if os.path.isdir(rd):
            for f in sorted(os.listdir(rd)):
                if f.endswith(".json"):
                    b = json.load(open(os.path.join(rd, f)))
                    name = "regress-" + f[:-5]
                    cases[name] = dict(name=name, ops=b["ops"], patterns=PATTERNS, seed=sd)
                    origin[name] = "regress"
    # harness-level instantiation of the requests (the reference semantics does not depend on it): how a request
    # addresses its target (in every path / in the prefix / first element in the prefix too), and updates that the
    # same request also deletes (gNMI: the deletes of a request take effect before its updates)
    for name in sorted(cases):
        r2 = random.Random("%s-%d" % (name, sd))
        for op in cases[name]["ops"]:
            if op.get("kind") != "set":
                continue
            op["mode"] = r2.choice(["", "", "prefix", "split"])
            upd = sorted(p for p, v in op["ch"].items() if v != "DEL")
            if upd and r2.random() < 0.2:
                op["re"] = upd
    names = sorted(cases)
    def cmd(ci, chunk):
        inp = sc.path("data-cases%03d.ndjson" % ci)
        with open(inp, "w") as f:
            for n in chunk:
                f.write(json.dumps(cases[n]) + "\n")
        return [bins["datarun"], "-in", inp, "-out", sc.path("data-out%03d.ndjson" % ci), "-workers", "4"]
    outp = sc.path("data-out.ndjson")
    with open(outp, "w") as allout:
        for ci, rc, out, err in sorted(vlib.run_chunked(cmd, names)):
            if rc != 0:
                raise vlib.Inconclusive("datarun failed rc=%d:\n%s" % (rc, "\n".join(l for l in err.splitlines() if "WARN" not in l)[-3000:]))
            allout.write(open(sc.path("data-out%03d.ndjson" % ci)).read())
    lines = [json.loads(x) for x in open(outp)]
    # validate in batches with TLC
    batches, cur = [], []
    for L in lines:
        if L["kind"] == "init" and len(cur) > 3000:
            batches.append(cur)
            cur = []
        cur.append(L)
    if cur:
        batches.append(cur)

    def val(job):
        bi, ls = job
        p = os.path.join(specdir, "obs%03d.ndjson" % bi)
        with open(p, "w") as f:
            for L in ls:
                f.write(json.dumps(L) + "\n")
        out, rc, wall = vlib.run_tlc(specdir, "DataTrace.tla", "DataTrace.cfg", env={"TRACE": p}, workers=1, heap="3g", timeout=3600, metatag="dv%d" % bi)
        return bi, ls, out, rc

    violations = []
    checked = 0
    for bi, ls, out, rc in vlib.pmap(val, list(enumerate(batches)), workers=8):
        bad = vlib.tlc_failed(out)
        if bad or "No error has been found" not in out or "Postcondition" in out:
            raise vlib.Inconclusive("data validation batch %d did not complete (%s):\n%s" % (bi, bad, out[-2000:]))
        checked += len(ls)
        for m in re.finditer(r'<<\s*"VIOLATION",\s*(\d+),\s*\{([^}]*)\}\s*>>', out, re.S):
            L = ls[int(m.group(1)) - 1]
            for c in re.findall(r'"(\w+)"', m.group(2)):
                if any(c.startswith(p) for p in clause_prefixes):
                    violations.append((L["case"], L["n"], c))
    return dict(violations=violations, cases=cases, origin=origin, explored=explored, observations=checked, names=names)


def classify_and_report(prop, res, known):
    """match violations against known findings; print lines; return (n_violations, known_hits)"""
    import findings
    hits, viols = {}, []
    for case, n, clause in res["violations"]:
        c = res["cases"][case]
        hit = None
        for k in known:
            if k.get("property") == prop and k.get("status") == "known" and k.get("clause") in (None, clause):
                fn = getattr(findings, k.get("when", "always"), None)
                if fn and fn(c, None, n):
                    hit = k
                    break
        if hit:
            hits.setdefault(hit["id"], [hit, 0])[1] += 1
        else:
            viols.append((case, n, clause))
    for kid, (k, cnt) in sorted(hits.items()):
        print("KNOWN-FINDING: property=%s %s (%d observations)" % (prop, k["what"], cnt))
    shown = {}
    for case, n, clause in viols:
        shown[clause] = shown.get(clause, 0) + 1
        if shown[clause] > 3:
            continue
        rp = vlib.save_replay(prop, "data-" + hashlib.sha1((case + clause).encode()).hexdigest()[:10],
                              dict(property=prop, clause=clause, n=n, case=res["cases"][case]))
        print("VIOLATION property=%s replay=%s clause=%s request=%d ops=%s" % (prop, rp, clause, n, json.dumps(res["cases"][case]["ops"])[:300]))
    return viols, hits


def check(prop, tier, replay_file=None, prefixes=None):
    t0 = time.time()
    sc = vlib.Scratch(prop + "d")
    try:
        bins = vlib.build_harness(sc, cmds=("datarun",))
        res = run(prop, tier, prefixes or [prop + "_"], sc, bins, replay_file)
        viols, hits = classify_and_report(prop, res, vlib.load_known())
        if os.environ.get("VERIF_DUMP"):
            json.dump([dict(case=c, n=n, clause=cl, ops=res["cases"][c]["ops"]) for c, n, cl in viols], open(os.environ["VERIF_DUMP"], "w"))
        ev = dict(property_id=prop, tier=tier, seed=vlib.seed(), level="model_checking", wall_s=round(time.time() - t0, 1),
                  violations=len(viols),
                  coverage=dict(states=max(1, sum(e["distinct"] for e in res["explored"])),
                                transitions=max(1, sum(e["generated"] for e in res["explored"])),
                                traces_validated_against_impl=len(res["names"]),
                                observations_checked=res["observations"],
                                exploration=res["explored"], patterns=PATTERNS,
                                known_findings={k: n for k, (_, n) in hits.items()},
                                exhaustive=all(e["exhaustive"] and e["replayed"] == e["histories"] for e in res["explored"]) if res["explored"] else False,
                                samples=[res["cases"][n]["ops"] for n in res["names"][:3]]),
                  assumptions=["reference semantics = spec/data/ConfigData (ref layer) / DataTrace", "path universe of 8 leaves + 7 interior nodes, 2 values",
                               "single connected target; requests are valid for the model plugin"])
        vlib.write_evidence(prop, ev)
        log("%s %s data: %d histories, %d observations, %d violations, %d known classes, %.0fs" %
            (prop, tier, len(res["names"]), res["observations"], len(viols), len(hits), time.time() - t0))
        return vlib.EXIT_VIOLATION if viols else vlib.EXIT_OK
    finally:
        sc.cleanup()
